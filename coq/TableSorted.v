(* TableSorted.v — the routing table stays sorted, binary search finds the right place, and a
   lookup returns the best exact-destination route (C11). *)
From Verif Require Import Prelude SwitchLabel Table TableProofs.

(* ---------- binary search on a list split by a monotone predicate ---------- *)
Section BS.
  Context {T : Type} (cmp : entry -> T -> Z) (x : list entry) (target : T).
  Definition lt_t (e : entry) : bool := (cmp e target <? 0)%Z.
  Definition split_at (k : nat) : Prop :=
    (k <= length x)%nat /\
    (forall i e, (i < k)%nat -> nth_error x i = Some e -> lt_t e = true) /\
    (forall i e, (k <= i)%nat -> nth_error x i = Some e -> lt_t e = false).

  Lemma div2_mid i j : (i < j)%nat -> (i <= Nat.div2 (i + j) < j)%nat.
  Proof.
    intros H. rewrite Nat.div2_div. pose proof (Nat.div_mod (i + j) 2 ltac:(lia)) as D.
    pose proof (Nat.mod_upper_bound (i + j) 2 ltac:(lia)). lia.
  Qed.

  Lemma bsearch_go_spec : forall fuel i j k,
    split_at k -> (i <= k <= j)%nat -> (j <= length x)%nat -> (j - i < fuel)%nat ->
    bsearch_go cmp x target i j fuel = k.
  Proof.
    induction fuel as [|f IH]; intros i j k Hs Hk Hj Hf; [lia|].
    cbn [bsearch_go]. destruct (Nat.ltb_spec i j) as [Hij|Hij]; [|lia].
    pose proof (div2_mid i j Hij) as Hm. set (h := Nat.div2 (i + j)) in *.
    destruct (nth_error x h) as [e|] eqn:He.
    2:{ apply nth_error_None in He. lia. }
    destruct Hs as (Hkl & Hlo & Hhi).
    fold (lt_t e). destruct (lt_t e) eqn:Hlt.
    - assert (h < k)%nat by (destruct (Nat.lt_ge_cases h k) as [|Hge]; [assumption|rewrite (Hhi h e Hge He) in Hlt; discriminate]).
      apply IH; [repeat split; assumption|lia|lia|lia].
    - assert (k <= h)%nat by (destruct (Nat.lt_ge_cases h k) as [Hl|]; [rewrite (Hlo h e Hl He) in Hlt; discriminate|assumption]).
      apply IH; [repeat split; assumption|lia|lia|lia].
  Qed.

  Theorem bsearch_index k : split_at k -> fst (bsearch cmp x target) = k.
  Proof.
    intros Hs. unfold bsearch. cbn [fst]. apply bsearch_go_spec; [exact Hs| |lia|lia].
    destruct Hs as (H & _). lia.
  Qed.
End BS.

(* ---------- the table order ---------- *)
Lemma cmpN_spec a b : (cmpN a b < 0)%Z <-> a < b.
Proof. unfold cmpN. destruct (N.compare_spec a b); split; intros; try lia. Qed.
Lemma cmpN_le a b : (cmpN a b <= 0)%Z <-> a <= b.
Proof. unfold cmpN. destruct (N.compare_spec a b); split; intros; try lia. Qed.
Lemma cmpN_zero a b : cmpN a b = 0%Z <-> a = b.
Proof. unfold cmpN. destruct (N.compare_spec a b); split; intros; try lia; try discriminate. Qed.

(* relay lists of equal length: a total lexicographic order *)
Lemma cmp_relays_refl a : cmp_relays a a = 0%Z.
Proof. induction a as [|x a IH]; cbn; [reflexivity|]. rewrite N.eqb_refl. exact IH. Qed.

Lemma cmp_relays_antisym : forall a b, length a = length b -> cmp_relays b a = (- cmp_relays a b)%Z.
Proof.
  induction a as [|x a IH]; destruct b as [|y b]; cbn; intros H; try discriminate; [reflexivity|].
  destruct (N.eqb_spec y x) as [E|Hne].
  - subst y. rewrite N.eqb_refl. apply IH. lia.
  - destruct (N.eqb_spec x y) as [E|_]; [congruence|]. unfold cmpN. rewrite (N.compare_antisym x y).
    destruct (x ?= y); reflexivity.
Qed.

Lemma cmp_relays_trans : forall a b c, length a = length b -> length b = length c ->
  (cmp_relays a b <= 0)%Z -> (cmp_relays b c <= 0)%Z -> (cmp_relays a c <= 0)%Z.
Proof.
  induction a as [|x a IH]; destruct b as [|y b], c as [|z c]; cbn; intros H1 H2; try discriminate; try lia.
  destruct (N.eqb_spec x y) as [->|Hxy]; destruct (N.eqb_spec y z) as [->|Hyz].
  - apply IH; lia.
  - auto.
  - intros A _. destruct (N.eqb_spec x z) as [E|_]; [contradiction|exact A].
  - intros A B. apply cmpN_le in A, B. destruct (N.eqb_spec x z) as [->|Hxz]; [exfalso; lia|]. apply cmpN_le. lia.
Qed.

Lemma cmp_relays_lt_le_trans : forall a b c, length a = length b -> length b = length c ->
  (cmp_relays a b <= 0)%Z -> (cmp_relays b c < 0)%Z -> (cmp_relays a c < 0)%Z.
Proof.
  induction a as [|x a IH]; destruct b as [|y b], c as [|z c]; cbn; intros H1 H2; try discriminate; try lia.
  destruct (N.eqb_spec x y) as [->|Hxy]; destruct (N.eqb_spec y z) as [->|Hyz].
  - apply IH; lia.
  - auto.
  - intros A _. destruct (N.eqb_spec x z) as [E|_]; [contradiction|]. apply cmpN_le in A. apply cmpN_spec. lia.
  - intros A B. apply cmpN_le in A. apply cmpN_spec in B. destruct (N.eqb_spec x z) as [->|Hxz]; [exfalso; lia|]. apply cmpN_spec. lia.
Qed.

(* characterisation of std_cmp <= 0 and < 0 *)
Definition rl (e : entry) : list N := relays (e_path e).

Lemma std_le_iff a b : (std_cmp a b <= 0)%Z <->
  e_dst a < e_dst b \/ (e_dst a = e_dst b /\
    (e_thops a < e_thops b \/ (e_thops a = e_thops b /\
      (e_tdelay a < e_tdelay b \/ (e_tdelay a = e_tdelay b /\ (cmp_relays (rl a) (rl b) <= 0)%Z))))).
Proof.
  unfold std_cmp, rl.
  destruct (N.eqb_spec (e_dst a) (e_dst b)) as [Ed|Ed]; cbn [negb].
  2:{ rewrite cmpN_le. split; intros H; [left; lia|destruct H as [H|[H _]]; [lia|contradiction]]. }
  destruct (N.eqb_spec (e_thops a) (e_thops b)) as [Eh|Eh]; cbn [negb].
  2:{ split; intros H; [right; split; [assumption|left; lia]|destruct H as [H|[_ [H|[H _]]]]; try lia; contradiction]. }
  destruct (N.eqb_spec (e_tdelay a) (e_tdelay b)) as [Et|Et]; cbn [negb].
  2:{ split; intros H; [right; split; [assumption|right; split; [assumption|left; lia]]|
      destruct H as [H|[_ [H|[_ [H|[H _]]]]]]; try lia; contradiction]. }
  split; intros H; [right; split; [assumption|right; split; [assumption|right; split; assumption]]|
    destruct H as [H|[_ [H|[_ [H|[_ H]]]]]]; try lia; exact H].
Qed.

Lemma std_lt_iff a b : (std_cmp a b < 0)%Z <->
  e_dst a < e_dst b \/ (e_dst a = e_dst b /\
    (e_thops a < e_thops b \/ (e_thops a = e_thops b /\
      (e_tdelay a < e_tdelay b \/ (e_tdelay a = e_tdelay b /\ (cmp_relays (rl a) (rl b) < 0)%Z))))).
Proof.
  unfold std_cmp, rl.
  destruct (N.eqb_spec (e_dst a) (e_dst b)) as [Ed|Ed]; cbn [negb].
  2:{ rewrite cmpN_spec. split; intros H; [left; lia|destruct H as [H|[H _]]; [lia|contradiction]]. }
  destruct (N.eqb_spec (e_thops a) (e_thops b)) as [Eh|Eh]; cbn [negb].
  2:{ split; intros H; [right; split; [assumption|left; lia]|destruct H as [H|[_ [H|[H _]]]]; try lia; contradiction]. }
  destruct (N.eqb_spec (e_tdelay a) (e_tdelay b)) as [Et|Et]; cbn [negb].
  2:{ split; intros H; [right; split; [assumption|right; split; [assumption|left; lia]]|
      destruct H as [H|[_ [H|[_ [H|[H _]]]]]]; try lia; contradiction]. }
  split; intros H; [right; split; [assumption|right; split; [assumption|right; split; assumption]]|
    destruct H as [H|[_ [H|[_ [H|[_ H]]]]]]; try lia; exact H].
Qed.

(* two entries are comparable when equal (dst, hops, delay) implies equally long relay lists *)
Definition compat (a b : entry) : Prop :=
  e_dst a = e_dst b -> e_thops a = e_thops b -> e_tdelay a = e_tdelay b -> length (rl a) = length (rl b).

Lemma std_le_trans a b c : compat a b -> compat b c -> compat a c ->
  (std_cmp a b <= 0)%Z -> (std_cmp b c <= 0)%Z -> (std_cmp a c <= 0)%Z.
Proof.
  intros Cab Cbc Cac. rewrite !std_le_iff.
  intros [H1|(E1 & [H1|(E2 & [H1|(E3 & H1)])])] [H2|(F1 & [H2|(F2 & [H2|(F3 & H2)])])]; try (left; lia);
    try (right; split; [lia|left; lia]); try (right; split; [lia|right; split; [lia|left; lia]]).
  right. split; [lia|]. right. split; [lia|]. right. split; [lia|].
  apply (cmp_relays_trans (rl a) (rl b) (rl c)); [apply Cab; lia|apply Cbc; lia|assumption|assumption].
Qed.

Lemma std_le_lt_trans a b c : compat a b -> compat b c -> compat a c ->
  (std_cmp a b <= 0)%Z -> (std_cmp b c < 0)%Z -> (std_cmp a c < 0)%Z.
Proof.
  intros Cab Cbc Cac. rewrite std_le_iff, !std_lt_iff.
  intros [H1|(E1 & [H1|(E2 & [H1|(E3 & H1)])])] [H2|(F1 & [H2|(F2 & [H2|(F3 & H2)])])]; try (left; lia);
    try (right; split; [lia|left; lia]); try (right; split; [lia|right; split; [lia|left; lia]]).
  right. split; [lia|]. right. split; [lia|]. right. split; [lia|].
  apply (cmp_relays_lt_le_trans (rl a) (rl b) (rl c)); [apply Cab; lia|apply Cbc; lia|assumption|assumption].
Qed.

Lemma std_total a b : compat a b -> (std_cmp a b <= 0)%Z \/ (std_cmp b a < 0)%Z.
Proof.
  intros C. rewrite std_le_iff, std_lt_iff.
  destruct (N.lt_trichotomy (e_dst a) (e_dst b)) as [H|[H|H]]; [left; left; exact H| |right; left; exact H].
  destruct (N.lt_trichotomy (e_thops a) (e_thops b)) as [H2|[H2|H2]];
    [left; right; split; [exact H|left; exact H2]| |right; right; split; [lia|left; exact H2]].
  destruct (N.lt_trichotomy (e_tdelay a) (e_tdelay b)) as [H3|[H3|H3]];
    [left; right; split; [exact H|right; split; [exact H2|left; exact H3]]| |right; right; split; [lia|right; split; [lia|left; exact H3]]].
  pose proof (cmp_relays_antisym (rl a) (rl b) (C H H2 H3)) as A.
  destruct (Z_le_gt_dec (cmp_relays (rl a) (rl b)) 0) as [L|G].
  - left. right. split; [exact H|]. right. split; [exact H2|]. right. split; [exact H3|exact L].
  - right. right. split; [lia|]. right. split; [lia|]. right. split; [lia|]. lia.
Qed.

(* ---------- sorted lists ---------- *)
From Coq Require Import Sorting.Sorted.

Definition sle (a b : entry) : Prop := (std_cmp a b <= 0)%Z.
Definition sorted (t : list entry) : Prop := StronglySorted sle t.
Definition lcompat (t : list entry) : Prop := forall a b, In a t -> In b t -> compat a b.

Lemma compat_sym a b : compat a b -> compat b a.
Proof. unfold compat. intros H E1 E2 E3. symmetry. apply H; congruence. Qed.

Lemma compat_refl a : compat a a.
Proof. intros _ _ _. reflexivity. Qed.

Lemma sorted_filter f t : sorted t -> sorted (filter f t).
Proof.
  induction 1 as [|a l Hs IH Hf]; cbn; [constructor|].
  destruct (f a); [|exact IH]. constructor; [exact IH|].
  rewrite Forall_forall in *. intros x Hx. apply filter_In in Hx. apply Hf. tauto.
Qed.

Lemma sorted_app l1 l2 : sorted l1 -> sorted l2 -> (forall x y, In x l1 -> In y l2 -> sle x y) -> sorted (l1 ++ l2).
Proof.
  induction 1 as [|a l Hs IH Hf]; intros H2 Hc; cbn; [exact H2|].
  constructor; [apply IH; [exact H2|intros x y Hx Hy; apply Hc; [right; exact Hx|exact Hy]]|].
  rewrite Forall_forall in *. intros x Hx. apply in_app_or in Hx. destruct Hx as [Hx|Hx]; [apply Hf; exact Hx|apply Hc; [left; reflexivity|exact Hx]].
Qed.

Lemma sorted_app_inv l1 l2 : sorted (l1 ++ l2) -> sorted l1 /\ sorted l2 /\ (forall x y, In x l1 -> In y l2 -> sle x y).
Proof.
  induction l1 as [|a l IH]; cbn; intros H.
  - split; [constructor|]. split; [exact H|intros x y []].
  - inversion H as [|? ? Hs Hf]; subst. destruct (IH Hs) as (S1 & S2 & Hc). rewrite Forall_forall in Hf.
    split; [constructor; [exact S1|rewrite Forall_forall; intros x Hx; apply Hf; apply in_or_app; left; exact Hx]|].
    split; [exact S2|]. intros x y [<-|Hx] Hy; [apply Hf; apply in_or_app; right; exact Hy|apply Hc; assumption].
Qed.

(* insertion sort *)
Lemma insert_by_sorted e l : lcompat (e :: l) -> sorted l -> sorted (insert_by std_cmp e l).
Proof.
  intros Hc. induction 1 as [|a l Hs IH Hf]; cbn [insert_by]; [constructor; [constructor|constructor]|].
  rewrite Forall_forall in Hf.
  destruct (Z.ltb_spec (std_cmp e a) 0) as [Hlt|Hge].
  - constructor; [constructor; [exact Hs|rewrite Forall_forall; exact Hf]|].
    rewrite Forall_forall. intros x [<-|Hx]; [unfold sle; lia|].
    unfold sle. apply (std_le_trans e a x); try (apply Hc; cbn; tauto); [lia|apply Hf; exact Hx].
  - assert (Ha : sle a e).
    { destruct (std_total a e) as [H|H]; [apply Hc; cbn; tauto|exact H|lia]. }
    constructor.
    + apply IH. intros x y Hx Hy. apply Hc; cbn in *; tauto.
    + rewrite Forall_forall. intros x Hx. apply insert_by_in in Hx. destruct Hx as [<-|Hx]; [exact Ha|apply Hf; exact Hx].
Qed.

Lemma sort_by_sorted_gen l : forall acc, lcompat (l ++ acc) -> sorted acc ->
  sorted (fold_left (fun a e => insert_by std_cmp e a) l acc).
Proof.
  induction l as [|e l IH]; intros acc Hc Hs; cbn [fold_left]; [exact Hs|].
  apply IH.
  - intros x y Hx Hy. apply Hc; apply in_or_app; [apply in_app_or in Hx|apply in_app_or in Hy].
    + destruct Hx as [Hx|Hx]; [left; right; exact Hx|]. apply insert_by_in in Hx. destruct Hx as [<-|Hx]; [left; left; reflexivity|right; exact Hx].
    + destruct Hy as [Hy|Hy]; [left; right; exact Hy|]. apply insert_by_in in Hy. destruct Hy as [<-|Hy]; [left; left; reflexivity|right; exact Hy].
  - apply insert_by_sorted; [|exact Hs]. intros x y Hx Hy. apply Hc; apply in_or_app.
    + destruct Hx as [<-|Hx]; [left; left; reflexivity|right; exact Hx].
    + destruct Hy as [<-|Hy]; [left; left; reflexivity|right; exact Hy].
Qed.

Theorem sort_by_sorted l : lcompat l -> sorted (sort_by std_cmp l).
Proof. intros Hc. apply sort_by_sorted_gen; [rewrite app_nil_r; exact Hc|constructor]. Qed.

(* ---------- binary search on a sorted table ---------- *)
(* in a sorted table the entries strictly below a target form a prefix *)
Lemma sorted_split t target :
  sorted t -> (forall a, In a t -> compat a target) -> lcompat t ->
  exists k, split_at std_cmp t target k /\
            (forall x, In x (firstn k t) -> (std_cmp x target < 0)%Z) /\
            (forall x, In x (skipn k t) -> (std_cmp x target >= 0)%Z).
Proof.
  induction 1 as [|a l Hs IH Hf]; intros Hct Hc.
  - exists O. split; [split; [cbn; lia|split; intros i e Hi He; [lia|destruct i; discriminate]]|]. split; intros x [].
  - rewrite Forall_forall in Hf.
    destruct (Z.ltb_spec (std_cmp a target) 0) as [Hlt|Hge].
    + destruct IH as (k & (Hk & Hlo & Hhi) & Hfi & Hsk); [intros x Hx; apply Hct; right; exact Hx|intros x y Hx Hy; apply Hc; right; assumption|].
      exists (S k). split; [split; [cbn; lia|split]|split].
      * intros i e Hi He. destruct i as [|i]; cbn in He; [inversion He; subst; unfold lt_t; apply Z.ltb_lt; exact Hlt|apply (Hlo i e); [lia|exact He]].
      * intros i e Hi He. destruct i as [|i]; [lia|]. cbn in He. apply (Hhi i e); [lia|exact He].
      * cbn [firstn]. intros x [<-|Hx]; [exact Hlt|apply Hfi; exact Hx].
      * cbn [skipn]. exact Hsk.
    + exists O. split; [split; [cbn; lia|split]|split].
      * intros i e Hi; lia.
      * intros i e _ He. unfold lt_t. apply Z.ltb_ge.
        destruct i as [|i]; cbn in He; [inversion He; subst; exact Hge|].
        apply nth_error_In in He. specialize (Hf e He). unfold sle in Hf.
        destruct (Z.lt_ge_cases (std_cmp e target) 0) as [Hl|Hg]; [|exact Hg]. exfalso.
        assert ((std_cmp a target < 0)%Z); [|lia].
        apply (std_le_lt_trans a e target); [apply Hc; cbn; tauto|apply Hct; right; exact He|apply Hct; left; reflexivity|exact Hf|exact Hl].
      * intros x [].
      * cbn [skipn]. intros x [<-|Hx]; [lia|].
        specialize (Hf x Hx). unfold sle in Hf.
        destruct (Z.lt_ge_cases (std_cmp x target) 0) as [Hl|Hg]; [|lia]. exfalso.
        assert ((std_cmp a target < 0)%Z); [|lia].
        apply (std_le_lt_trans a x target); [apply Hc; cbn; tauto|apply Hct; right; exact Hx|apply Hct; left; reflexivity|exact Hf|exact Hl].
Qed.

(* inserting an entry at the index binary search returns keeps the table sorted *)
Theorem insert_at_bsearch_sorted t e :
  sorted t -> lcompat (e :: t) -> sorted (insert_at t (fst (bsearch std_cmp t e)) e).
Proof.
  intros Hs Hc.
  destruct (sorted_split t e Hs) as (k & Hsp & Hfi & Hsk).
  { intros a Ha. apply Hc; cbn; tauto. }
  { intros x y Hx Hy. apply Hc; cbn; tauto. }
  rewrite (bsearch_index std_cmp t e k Hsp). unfold insert_at.
  rewrite <- (firstn_skipn k t) in Hs. apply sorted_app_inv in Hs. destruct Hs as (S1 & S2 & Hx).
  apply sorted_app; [exact S1| |].
  - constructor; [exact S2|]. rewrite Forall_forall. intros y Hy.
    specialize (Hsk y Hy). unfold sle.
    assert (Cy : compat e y) by (apply Hc; [left; reflexivity|right; rewrite <- (firstn_skipn k t); apply in_or_app; right; exact Hy]).
    destruct (std_total e y Cy) as [H|H]; [exact H|lia].
  - intros x y Hxi [<-|Hy]; [specialize (Hfi x Hxi); unfold sle; lia|apply Hx; assumption].
Qed.

(* ---------- well-formed entries and the destination section ---------- *)
(* what AddRoute stores: 1 <= hops <= 254 (CalculateTotals) *)
Definition ewf (e : entry) : Prop := 1 <= e_thops e <= 254.
Definition twf (t : list entry) : Prop := (forall e, In e t -> ewf e) /\ lcompat t.

Lemma calc_thops_range p : 1 <= calc_thops p <= 254.
Proof.
  unfold calc_thops. destruct (length p) as [|[|n]]; try lia.
  destruct (Nat.leb_spec (S n) 254); lia.
Qed.

Lemma probe_lo_lt x d : ewf x -> ((std_cmp x (probe d 0 0) < 0)%Z <-> e_dst x < d).
Proof.
  intros [H1 H2]. rewrite std_lt_iff. cbn [probe e_dst e_thops e_tdelay].
  split; [intros [H|(E & [H|(E2 & _)])]; [exact H|lia|lia]|intros H; left; exact H].
Qed.

Lemma probe_hi_lt x d : ewf x -> ((std_cmp x (probe d 255 65535) < 0)%Z <-> e_dst x <= d).
Proof.
  intros [H1 H2]. rewrite std_lt_iff. cbn [probe e_dst e_thops e_tdelay].
  split; [intros [H|(E & _)]; lia|]. intros H. destruct (N.eq_dec (e_dst x) d) as [E|E]; [right; split; [exact E|left; lia]|left; lia].
Qed.

Lemma compat_probe x d h dl : ewf x -> (h = 0 \/ h = 255) -> compat x (probe d h dl).
Proof. intros [H1 H2] Hh _ E _. cbn in E. lia. Qed.

Lemma in_firstn_sub {A} (x : A) n l : In x (firstn n l) -> In x l.
Proof. intros H. rewrite <- (firstn_skipn n l). apply in_or_app. left. exact H. Qed.
Lemma in_skipn_sub {A} (x : A) n l : In x (skipn n l) -> In x l.
Proof. intros H. rewrite <- (firstn_skipn n l). apply in_or_app. right. exact H. Qed.
Lemma firstn_add {A} (l : list A) : forall a b, firstn (a + b) l = firstn a l ++ firstn b (skipn a l).
Proof.
  induction l as [|h t IH]; intros a b.
  - rewrite !firstn_nil, skipn_nil, firstn_nil. reflexivity.
  - destruct a as [|a]; [reflexivity|]. cbn. rewrite IH. reflexivity.
Qed.

(* the destination section [s, en) of a sorted well-formed table holds exactly the routes to d *)
Theorem dst_section_spec t d s en :
  sorted t -> twf t -> dst_section t d = (s, en) ->
  (s <= en <= length t)%nat /\
  (forall x, In x (firstn s t) -> e_dst x < d) /\
  (forall x, In x (firstn (en - s) (skipn s t)) -> e_dst x = d) /\
  (forall x, In x (skipn en t) -> d < e_dst x).
Proof.
  intros Hs [Hw Hc] Hd. unfold dst_section in Hd. apply pair_equal_spec in Hd. destruct Hd as [E1 E2].
  destruct (sorted_split t (probe d 0 0) Hs) as (k1 & Hsp1 & Hf1 & Hk1); [intros a Ha; apply compat_probe; [apply Hw; exact Ha|left; reflexivity]|exact Hc|].
  destruct (sorted_split t (probe d 255 65535) Hs) as (k2 & Hsp2 & Hf2 & Hk2); [intros a Ha; apply compat_probe; [apply Hw; exact Ha|right; reflexivity]|exact Hc|].
  rewrite (bsearch_index _ _ _ _ Hsp1) in E1. rewrite (bsearch_index _ _ _ _ Hsp2) in E2. subst s en.
  assert (Hle : (k1 <= k2)%nat).
  { destruct (Nat.le_gt_cases k1 k2) as [H|H]; [exact H|exfalso].
    destruct Hsp1 as (L1 & Lo1 & _). destruct Hsp2 as (L2 & _ & Hi2).
    destruct (nth_error t k2) as [e|] eqn:He; [|apply nth_error_None in He; lia].
    pose proof (Lo1 k2 e H He) as A. pose proof (Hi2 k2 e (le_n _) He) as B. unfold lt_t in A, B.
    apply Z.ltb_lt in A. apply Z.ltb_ge in B. pose proof (nth_error_In _ _ He) as Hi.
    apply (probe_lo_lt e d (Hw e Hi)) in A. assert (~ (e_dst e <= d)) by (intros C; apply (probe_hi_lt e d (Hw e Hi)) in C; lia). lia. }
  split; [destruct Hsp2 as (L2 & _); lia|]. split; [|split].
  - intros x Hx. apply (probe_lo_lt x d (Hw x (in_firstn_sub x _ _ Hx))). apply Hf1. exact Hx.
  - intros x Hx.
    assert (Hxs : In x (skipn k1 t)) by (exact (in_firstn_sub x _ _ Hx)).
    assert (Hxf : In x (firstn k2 t)).
    { replace k2 with (k1 + (k2 - k1))%nat by lia. rewrite firstn_add. apply in_or_app. right. exact Hx. }
    pose proof (Hw x (in_skipn_sub x _ _ Hxs)) as Wx.
    specialize (Hk1 x Hxs). specialize (Hf2 x Hxf).
    apply (probe_hi_lt x d Wx) in Hf2.
    assert (~ e_dst x < d) by (intros C; apply (probe_lo_lt x d Wx) in C; lia). lia.
  - intros x Hx. specialize (Hk2 x Hx). assert (~ e_dst x <= d) by (intros C; apply (probe_hi_lt x d (Hw x (in_skipn_sub x _ _ Hx))) in C; lia). lia.
Qed.

(* ---------- replacing a route inside its destination section and re-sorting the section ---------- *)
Lemma decomp3 {A} (t : list A) s en : (s <= en)%nat ->
  t = firstn s t ++ firstn (en - s) (skipn s t) ++ skipn en t.
Proof.
  intros H. rewrite app_assoc, <- firstn_add. replace (s + (en - s))%nat with en by lia. symmetry. apply firstn_skipn.
Qed.

Lemma replace_at_app {A} (X B C : list A) i e : (i < length B)%nat ->
  replace_at (X ++ B ++ C) (length X + i) e = X ++ replace_at B i e ++ C.
Proof.
  intros Hi. unfold replace_at.
  rewrite firstn_app, firstn_all2 by lia. replace (length X + i - length X)%nat with i by lia.
  rewrite firstn_app. replace (i - length B)%nat with O by lia. cbn [firstn]. rewrite app_nil_r.
  replace (S (length X + i)) with (length X + S i)%nat by lia.
  rewrite skipn_app, skipn_all2 by lia. replace (length X + S i - length X)%nat with (S i) by lia. cbn [app].
  rewrite skipn_app. replace (S i - length B)%nat with O by lia. cbn [skipn].
  rewrite <- !app_assoc. reflexivity.
Qed.

Lemma sort_section_app (X B C : list entry) : 
  sort_section (X ++ B ++ C) (length X) (length X + length B) = X ++ sort_by std_cmp B ++ C.
Proof.
  unfold sort_section. rewrite firstn_app, firstn_all, Nat.sub_diag. cbn [firstn]. rewrite app_nil_r.
  f_equal. replace (length X + length B - length X)%nat with (length B) by lia.
  rewrite skipn_app, skipn_all, Nat.sub_diag. cbn [skipn app].
  rewrite firstn_app, firstn_all, Nat.sub_diag. cbn [firstn]. rewrite app_nil_r. f_equal.
  rewrite app_assoc, skipn_app. rewrite skipn_all2 by (rewrite app_length; lia).
  rewrite app_length. replace (length X + length B - (length X + length B))%nat with O by lia. reflexivity.
Qed.

Lemma replace_at_in {A} (B : list A) i e x : In x (replace_at B i e) -> x = e \/ In x B.
Proof.
  unfold replace_at. intros H. apply in_app_or in H. destruct H as [H|[H|H]].
  - right. exact (in_firstn_sub x _ _ H).
  - left. symmetry. exact H.
  - right. exact (in_skipn_sub x _ _ H).
Qed.

Lemma replace_at_length {A} (B : list A) i e : (i < length B)%nat -> length (replace_at B i e) = length B.
Proof.
  intros H. unfold replace_at. rewrite app_length, firstn_length. cbn [length]. rewrite skipn_length. lia.
Qed.

Lemma sle_of_dst a b : e_dst a < e_dst b -> sle a b.
Proof. intros H. unfold sle. apply std_le_iff. left. exact H. Qed.

Theorem section_resort_sorted t d s en i e :
  sorted t -> twf t -> dst_section t d = (s, en) -> (s <= i < en)%nat ->
  e_dst e = d -> lcompat (e :: t) ->
  sorted (sort_section (replace_at t i e) s en) /\
  (forall x, In x (sort_section (replace_at t i e) s en) -> x = e \/ In x t).
Proof.
  intros Hs Hw Hd Hi He Hc.
  destruct (dst_section_spec t d s en Hs Hw Hd) as (Hb & HA & HB & HC).
  assert (Ht : t = firstn s t ++ firstn (en - s) (skipn s t) ++ skipn en t) by (apply decomp3; lia).
  assert (LX : length (firstn s t) = s) by (rewrite firstn_length; lia).
  assert (LB : length (firstn (en - s) (skipn s t)) = (en - s)%nat) by (rewrite firstn_length, skipn_length; lia).
  remember (firstn s t) as X eqn:EX. remember (firstn (en - s) (skipn s t)) as B eqn:EB. remember (skipn en t) as C eqn:EC.
  clear EX EB EC.
  rewrite Ht in Hs. apply sorted_app_inv in Hs. destruct Hs as (SX & SBC & _).
  apply sorted_app_inv in SBC. destruct SBC as (_ & SC & _).
  assert (Hrep : replace_at t i e = X ++ replace_at B (i - s) e ++ C).
  { rewrite Ht at 1. replace i with (length X + (i - s))%nat at 1 by lia. apply replace_at_app. lia. }
  rewrite Hrep.
  assert (LB' : length (replace_at B (i - s) e) = length B) by (apply replace_at_length; lia).
  assert (Eq : sort_section (X ++ replace_at B (i - s) e ++ C) s en = X ++ sort_by std_cmp (replace_at B (i - s) e) ++ C).
  { assert (Een : en = (length X + length (replace_at B (i - s) e))%nat) by lia.
    rewrite Een. rewrite <- LX at 2. apply sort_section_app. }
  rewrite Eq. clear Eq.
  assert (HB' : forall x, In x (replace_at B (i - s) e) -> e_dst x = d /\ (x = e \/ In x t)).
  { intros x Hx. apply replace_at_in in Hx. destruct Hx as [->|Hx]; [split; [exact He|left; reflexivity]|].
    split; [apply HB; exact Hx|right; rewrite Ht; apply in_or_app; right; apply in_or_app; left; exact Hx]. }
  split.
  - apply sorted_app; [exact SX| |].
    + apply sorted_app; [|exact SC|].
      * apply sort_by_sorted. intros x y Hx Hy. destruct (HB' x Hx) as [_ Ex]. destruct (HB' y Hy) as [_ Ey].
        apply Hc; [destruct Ex as [->|Ex]; [left; reflexivity|right; exact Ex]|destruct Ey as [->|Ey]; [left; reflexivity|right; exact Ey]].
      * intros x y Hx Hy. apply sort_by_in in Hx. destruct (HB' x Hx) as [Dx _]. apply sle_of_dst. rewrite Dx. apply HC. exact Hy.
    + intros x y Hx Hy. apply sle_of_dst. apply in_app_or in Hy. destruct Hy as [Hy|Hy].
      * apply sort_by_in in Hy. destruct (HB' y Hy) as [Dy _]. rewrite Dy. apply HA. exact Hx.
      * pose proof (HA x Hx). pose proof (HC y Hy). lia.
  - intros x Hx. apply in_app_or in Hx. destruct Hx as [Hx|Hx]; [right; rewrite Ht; apply in_or_app; left; exact Hx|].
    apply in_app_or in Hx. destruct Hx as [Hx|Hx].
    + apply sort_by_in in Hx. exact (proj2 (HB' x Hx)).
    + right. rewrite Ht. apply in_or_app. right. apply in_or_app. right. exact Hx.
Qed.

(* ---------- what AddRoute stores is well formed ---------- *)
Definition pwf (e : entry) : Prop := e_thops e = calc_thops (e_path e) /\ (length (e_path e) <= 255)%nat.
Definition tpwf (t : list entry) : Prop := forall e, In e t -> pwf e.

Lemma removelast_length {A} (l : list A) : length (removelast l) = (length l - 1)%nat.
Proof. induction l as [|a [|b l] IH]; cbn in *; try lia. Qed.

Lemma relays_length p : length (relays p) = (length p - 2)%nat.
Proof. unfold relays. rewrite map_length, removelast_length. destruct p; cbn; lia. Qed.

Lemma calc_thops_len p q : (length p <= 255)%nat -> (length q <= 255)%nat ->
  calc_thops p = calc_thops q -> (length p - 2 = length q - 2)%nat.
Proof.
  unfold calc_thops. intros Hp Hq.
  destruct (length p) as [|[|n]], (length q) as [|[|m]]; try lia;
    repeat match goal with |- context [Nat.leb ?a ?b] => destruct (Nat.leb_spec a b) end; intros Heq; try lia.
Qed.

Lemma pwf_compat a b : pwf a -> pwf b -> compat a b.
Proof.
  intros [Ha La] [Hb Lb] _ Eh _. unfold rl. rewrite !relays_length. apply calc_thops_len; [exact La|exact Lb|congruence].
Qed.

Lemma pwf_ewf e : pwf e -> ewf e.
Proof. intros [H _]. unfold ewf. rewrite H. apply calc_thops_range. Qed.

Lemma tpwf_twf t : tpwf t -> twf t.
Proof. intros H. split; [intros e He; apply pwf_ewf, H, He|intros a b Ha Hb; apply pwf_compat; apply H; assumption]. Qed.

Lemma tpwf_lcompat_cons e t : pwf e -> tpwf t -> lcompat (e :: t).
Proof. intros He Ht a b [<-|Ha] [<-|Hb]; apply pwf_compat; auto. Qed.

(* find_eq inside add_route returns an index of the section *)
Lemma find_eq_range (f : entry -> bool) : forall l s i,
  (fix find_eq (l : list entry) (i : nat) : option nat :=
     match l with [] => None | x :: r => if f x then Some i else find_eq r (S i) end) l s = Some i ->
  (s <= i < s + length l)%nat.
Proof.
  induction l as [|x r IH]; intros s i H; [discriminate|]. destruct (f x); [inversion H; cbn; lia|].
  apply IH in H. cbn. lia.
Qed.

(* AddRoute keeps the table sorted and well formed *)
Theorem add_route_sorted cfg now t e0 t' b :
  sorted t -> tpwf t -> (length (e_path e0) <= 255)%nat ->
  add_route cfg now t e0 = Ok (t', b) -> sorted t' /\ tpwf t'.
Proof.
  intros Hs Hw Hlen. unfold add_route.
  destruct (rp_for cfg (e_dst e0)) as [rp|]; [|discriminate].
  destruct (if 0 <? rp_rbits rp then _ else _) as [pa pb].
  repeat match goal with |- context [if ?c then Err _ else _] => destruct c; [discriminate|] end.
  match goal with |- context [match ?c with Ok _ => _ | Err _ => _ | Panic => _ end] => destruct c as [exp2|?|] end; try discriminate.
  destruct (build_blocks (labels_of (e_path e0))); try discriminate.
  set (e := mkEntry (e_dst e0) pa pb (e_nexthop e0) (e_path e0) (e_stub e0) (e_source e0) exp2 (calc_thops (e_path e0)) (calc_tdelay (e_path e0) (e_tdelay e0))).
  assert (Pe : pwf e) by (split; [reflexivity|exact Hlen]).
  assert (Hc : lcompat (e :: t)) by (apply tpwf_lcompat_cons; assumption).
  assert (Hins : sorted (insert_at t (fst (bsearch std_cmp t e)) e) /\ tpwf (insert_at t (fst (bsearch std_cmp t e)) e)).
  { split; [apply insert_at_bsearch_sorted; assumption|].
    intros x Hx. apply insert_at_in in Hx. destruct Hx as [<-|Hx]; [exact Pe|apply Hw; exact Hx]. }
  destruct (dst_section t (e_dst e)) as [s en] eqn:Hsec.
  assert (Hres : forall i, (s <= i < en)%nat ->
            sorted (sort_section (replace_at t i e) s en) /\ tpwf (sort_section (replace_at t i e) s en)).
  { intros i Hi. destruct (section_resort_sorted t (e_dst e) s en i e Hs (tpwf_twf t Hw) Hsec Hi eq_refl Hc) as [S1 S2].
    split; [exact S1|]. intros x Hx. destruct (S2 x Hx) as [->|Hx']; [exact Pe|apply Hw; exact Hx']. }
  destruct (dst_section_spec t (e_dst e) s en Hs (tpwf_twf t Hw) Hsec) as (Hb & _).
  destruct (Nat.leb_spec en s) as [Hle|Hgt].
  - match goal with |- context [if ?c then Ok (t, false) else _] => destruct c end; intros H; inversion H; subst; [split; assumption|exact Hins].
  - match goal with |- context [if ?b then Ok (t, false) else _] => destruct b end; [intros H; inversion H; subst; split; assumption|].
    match goal with |- context [match ?f with Some _ => _ | None => _ end] => destruct f as [i|] eqn:Hf end.
    + intros H. inversion H; subst. apply Hres. apply find_eq_range in Hf. rewrite firstn_length, skipn_length in Hf. lia.
    + match goal with |- context [if ?c then Ok (insert_at _ _ _, true) else _] => destruct c eqn:Hc3 end; [intros H; inversion H; subst; exact Hins|].
      destruct (nth_error t (s + 2)) as [third|] eqn:Hth; [|discriminate].
      destruct (std_cmp e third <? 0)%Z; intros H; inversion H; subst; [|split; assumption].
      apply Hres. apply orb_false_iff in Hc3. destruct Hc3 as [Hc3 _]. apply Nat.ltb_ge in Hc3. lia.
Qed.

(* ---------- every table operation keeps the table sorted and well formed ---------- *)
Lemma tpwf_sub t t' : tpwf t -> (forall x, In x t' -> In x t) -> tpwf t'.
Proof. intros H Hs e He. apply H, Hs, He. Qed.

Theorem clean_sorted cfg self now t : tpwf t -> sorted (clean cfg self now t) /\ tpwf (clean cfg self now t).
Proof.
  intros Hw. assert (Hsub : forall x, In x (clean cfg self now t) -> In x t) by (intros x; apply clean_sub).
  split; [|exact (tpwf_sub _ _ Hw Hsub)].
  unfold clean. apply sort_by_sorted. intros a b Ha Hb. apply pwf_compat; apply Hw.
  - apply trim_sub in Ha. apply sort_by_in in Ha. apply filter_In in Ha. tauto.
  - apply trim_sub in Hb. apply sort_by_in in Hb. apply filter_In in Hb. tauto.
Qed.

Theorem tstep_sorted cfg self t o :
  sorted t -> tpwf t -> (match o with TAdd _ e => (length (e_path e) <= 255)%nat | _ => True end) ->
  sorted (tstep cfg self t o) /\ tpwf (tstep cfg self t o).
Proof.
  intros Hs Hw Ho. destruct o as [now e|ip|router disc|now]; cbn [tstep].
  - destruct (add_route cfg now t e) as [[t' b]|c|] eqn:Ha; cbn; try (split; assumption).
    exact (add_route_sorted cfg now t e t' b Hs Hw Ho Ha).
  - split; [apply sorted_filter; exact Hs|apply (tpwf_sub t); [exact Hw|intros x Hx; apply filter_In in Hx; tauto]].
  - split; [apply sorted_filter; exact Hs|apply (tpwf_sub t); [exact Hw|intros x Hx; apply filter_In in Hx; tauto]].
  - apply clean_sorted. exact Hw.
Qed.

Theorem history_sorted cfg self : forall ops t,
  sorted t -> tpwf t -> Forall (fun o => match o with TAdd _ e => (length (e_path e) <= 255)%nat | _ => True end) ops ->
  sorted (fold_left (tstep cfg self) ops t) /\ tpwf (fold_left (tstep cfg self) ops t).
Proof.
  induction ops as [|o ops IH]; intros t Hs Hw Ho; cbn [fold_left]; [split; assumption|].
  inversion Ho; subst. destruct (tstep_sorted cfg self t o Hs Hw) as [S W]; [assumption|]. apply IH; assumption.
Qed.

(* ---------- lookups on a sorted table ---------- *)
Lemma sle_refl e : sle e e.
Proof. unfold sle. apply std_le_iff. right. split; [reflexivity|]. right. split; [reflexivity|]. right. split; [reflexivity|]. rewrite cmp_relays_refl. lia. Qed.

Lemma find_cmp_lt e d : (find_cmp e d < 0)%Z <-> e_dst e < d.
Proof.
  unfold find_cmp. destruct (N.eqb_spec (e_dst e) d) as [E|E]; cbn [negb].
  - destruct (e_source e =? src_peer); split; intros; lia.
  - apply cmpN_spec.
Qed.

(* A lookup for an address that has at least one route returns a route to exactly that address,
   flagged as destination, and it is the best one in the table order: fewest hops, then lowest
   delay (the direct-peer route, with one hop and no delay, first). *)
Theorem lookup_exact_best t d :
  sorted t -> tpwf t -> (exists x, In x t /\ e_dst x = d) ->
  exists e, lookup_nearest t d = Some (e, true) /\ In e t /\ e_dst e = d /\
            forall y, In y t -> e_dst y = d -> sle e y.
Proof.
  intros Hs Hw (x & Hx & Hxd).
  destruct (dst_section t d) as [s en] eqn:Hsec.
  destruct (dst_section_spec t d s en Hs (tpwf_twf t Hw) Hsec) as (Hb & HA & HB & HC).
  assert (Ht : t = firstn s t ++ firstn (en - s) (skipn s t) ++ skipn en t) by (apply decomp3; lia).
  remember (firstn s t) as X eqn:EX. remember (firstn (en - s) (skipn s t)) as B eqn:EB. remember (skipn en t) as C eqn:EC.
  assert (LX : length X = s) by (subst X; rewrite firstn_length; lia).
  (* x sits in the middle part *)
  assert (HxB : In x B).
  { rewrite Ht in Hx. apply in_app_or in Hx. destruct Hx as [Hx|Hx]; [specialize (HA x Hx); lia|].
    apply in_app_or in Hx. destruct Hx as [Hx|Hx]; [exact Hx|specialize (HC x Hx); lia]. }
  destruct B as [|e B']; [destruct HxB|].
  assert (He : nth_error t s = Some e).
  { rewrite Ht. rewrite nth_error_app2 by lia. rewrite LX, Nat.sub_diag. reflexivity. }
  assert (Hed : e_dst e = d) by (apply HB; left; reflexivity).
  assert (Het : In e t) by (exact (nth_error_In _ _ He)).
  (* binary search with find_cmp lands on s *)
  assert (Hsp : split_at find_cmp t d s).
  { split; [lia|]. split.
    - intros i a Hi Ha. unfold lt_t. apply Z.ltb_lt. apply find_cmp_lt. apply HA. subst X.
      rewrite <- (firstn_skipn s t) in Ha. rewrite nth_error_app1 in Ha by (rewrite firstn_length; lia). exact (nth_error_In _ _ Ha).
    - intros i a Hi Ha. unfold lt_t. apply Z.ltb_ge.
      assert (Hge : d <= e_dst a).
      { assert (In a (skipn s t)).
        { rewrite <- (firstn_skipn s t) in Ha. rewrite nth_error_app2 in Ha by (rewrite firstn_length; lia). exact (nth_error_In _ _ Ha). }
        rewrite Ht in H. rewrite skipn_app in H. rewrite skipn_all2 in H by lia. replace (s - length X)%nat with O in H by lia. cbn [skipn app] in H.
        change (e :: B' ++ C) with ((e :: B') ++ C) in H.
        apply in_app_or in H. destruct H as [H|H]; [rewrite (HB a H); lia|specialize (HC a H); lia]. }
      destruct (Z.lt_ge_cases (find_cmp a d) 0) as [Hl|Hg]; [apply find_cmp_lt in Hl; lia|exact Hg]. }
  exists e. split; [|split; [exact Het|split; [exact Hed|]]].
  - unfold lookup_nearest, find_index. 
    pose proof (bsearch_index find_cmp t d s Hsp) as Hi.
    destruct (bsearch find_cmp t d) as [i m] eqn:Hbs. cbn [fst] in Hi. subst i.
    destruct m; [rewrite He; reflexivity|].
    assert (s < length t)%nat by (apply nth_error_Some; rewrite He; discriminate).
    destruct (Nat.leb_spec (length t) s); [lia|]. rewrite He.
    rewrite Hed, N.eqb_refl. rewrite He. reflexivity.
  - intros y Hy Hyd.
    assert (HyB : In y (e :: B')).
    { rewrite Ht in Hy. apply in_app_or in Hy. destruct Hy as [Hy|Hy]; [specialize (HA y Hy); lia|].
      apply in_app_or in Hy. destruct Hy as [Hy|Hy]; [exact Hy|specialize (HC y Hy); lia]. }
    destruct HyB as [<-|HyB]; [apply sle_refl|].
    rewrite Ht in Hs. apply sorted_app_inv in Hs. destruct Hs as (_ & S2 & _). apply sorted_app_inv in S2. destruct S2 as (S2 & _ & _).
    inversion S2 as [|? ? _ Hf]; subst. rewrite Forall_forall in Hf. apply Hf. exact HyB.
Qed.

(* from the empty table *)
Corollary reachable_sorted cfg self ops :
  Forall (fun o => match o with TAdd _ e => (length (e_path e) <= 255)%nat | _ => True end) ops ->
  sorted (fold_left (tstep cfg self) ops []) /\ tpwf (fold_left (tstep cfg self) ops []).
Proof. intros H. apply history_sorted; [constructor|intros e []|exact H]. Qed.

(* 'not added' on a sorted table: the destination already has a route, or it is new and refused
   because the gossip routes of its routing prefix are over their limit *)
Theorem not_added_has_route_or_full cfg now t e0 t' :
  sorted t -> tpwf t -> add_route cfg now t e0 = Ok (t', false) ->
  (exists x, In x t /\ e_dst x = e_dst e0) \/
  (forall x, In x t -> e_dst x <> e_dst e0) /\ e_source e0 = src_gossip.
Proof.
  intros Hs Hw. unfold add_route.
  destruct (rp_for cfg (e_dst e0)) as [rp|]; [|discriminate].
  destruct (if 0 <? rp_rbits rp then _ else _) as [pa pb].
  repeat match goal with |- context [if ?c then Err _ else _] => destruct c; [discriminate|] end.
  match goal with |- context [match ?c with Ok _ => _ | Err _ => _ | Panic => _ end] => destruct c as [exp2|?|] end; try discriminate.
  destruct (build_blocks (labels_of (e_path e0))); try discriminate.
  cbn [e_dst e_source].
  destruct (dst_section t (e_dst e0)) as [s en] eqn:Hsec.
  destruct (dst_section_spec t (e_dst e0) s en Hs (tpwf_twf t Hw) Hsec) as (Hb & HA & HB & HC).
  assert (Ht : t = firstn s t ++ firstn (en - s) (skipn s t) ++ skipn en t) by (apply decomp3; lia).
  destruct (Nat.leb_spec en s) as [Hle|Hgt].
  - destruct (N.eqb_spec (e_source e0) src_gossip) as [Hg|Hg].
    + intros _. right. split; [|exact Hg]. intros x Hx Hd.
      rewrite Ht in Hx. apply in_app_or in Hx. destruct Hx as [Hx|Hx]; [specialize (HA x Hx); lia|].
      apply in_app_or in Hx. destruct Hx as [Hx|Hx]; [|specialize (HC x Hx); lia].
      replace (en - s)%nat with O in Hx by lia. destruct Hx.
    + discriminate.
  - intros _. left.
    destruct (firstn (en - s) (skipn s t)) as [|x B] eqn:EB.
    + exfalso. assert (length (firstn (en - s) (skipn s t)) = (en - s)%nat) by (rewrite firstn_length, skipn_length; lia). rewrite EB in H. cbn in H. lia.
    + exists x. split; [rewrite Ht; apply in_or_app; right; apply in_or_app; left; left; reflexivity|apply HB; left; reflexivity].
Qed.
