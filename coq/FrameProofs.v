(* FrameProofs.v — lemmas about Frame.v (C02). *)
From Verif Require Import Prelude Gen Frame.

(* ---------- list/byte helpers ---------- *)
Lemma nth_set_nth_neq {A} (l : list A) i j v d : i <> j -> nth j (set_nth l i v) d = nth j l d.
Proof. revert i j; induction l as [|h t IH]; intros [|i] [|j] H; cbn [set_nth nth]; auto; try congruence. Qed.

Lemma nth_set_nth_eq {A} (l : list A) i v d : (i < length l)%nat -> nth i (set_nth l i v) d = v.
Proof. revert i; induction l as [|h t IH]; intros [|i] H; cbn [set_nth nth length] in *; try lia; auto. apply IH. lia. Qed.

Lemma nth_firstn {A} (l : list A) n i d : (i < n)%nat -> nth i (firstn n l) d = nth i l d.
Proof.
  revert n i; induction l as [|h t IH]; intros [|n] [|i] H; cbn [firstn nth]; try lia; auto. apply IH. lia.
Qed.

Lemma nth_skipn {A} (l : list A) n i d : nth i (skipn n l) d = nth (n + i) l d.
Proof. revert l; induction n as [|n IH]; intros [|h t]; cbn [skipn nth Nat.add]; auto. destruct i; reflexivity. Qed.

Lemma nth_range d lo hi i : (lo <= i < hi)%nat -> nth (i - lo) (range d lo hi) 0 = nth i d 0.
Proof. intros H. unfold range. rewrite nth_firstn by lia. rewrite nth_skipn. f_equal. lia. Qed.

Lemma zero12_length d : length (zero12 d) = length d.
Proof. unfold zero12. rewrite !set_nth_length. reflexivity. Qed.

Lemma zero12_nth d i : i <> 1%nat -> i <> 2%nat -> nth i (zero12 d) 0 = nth i d 0.
Proof. intros H1 H2. unfold zero12. rewrite !nth_set_nth_neq by congruence. reflexivity. Qed.

Lemma range_length d lo hi : (hi <= length d)%nat -> length (range d lo hi) = (hi - lo)%nat.
Proof. intros H. unfold range. rewrite firstn_length, skipn_length. lia. Qed.

(* ---------- parse facts ---------- *)
Lemma auth_size_cases ty : auth_size ty = 16%nat \/ auth_size ty = 64%nat.
Proof. unfold auth_size. destruct (is_enc ty); [left|right]; reflexivity. Qed.

Lemma parse_inv d ix : parse d = Ok ix ->
  byte_at d 0 = 1 /\
  mi ix = (49 + N.to_nat (byte_at d 48))%nat /\
  ai ix = (mi ix + 2 + N.to_nat (byte_at d (mi ix) * 256 + byte_at d (mi ix + 1)))%nat /\
  xi ix = (ai ix + auth_size (byte_at d 4))%nat /\
  (xi ix <= length d)%nat /\ (mi ix + 19 <= length d)%nat.
Proof.
  unfold parse. destruct d as [|v t] eqn:Hd; [discriminate|]. rewrite <- Hd.
  destruct (N.eqb_spec v 1) as [->|]; [|discriminate]. unfold parse_v1.
  destruct (N.of_nat (length d) <? frame_frameV1MinSize); [discriminate|].
  destruct (Nat.ltb_spec (length d) (49 + N.to_nat (byte_at d 48) + 19)) as [|Hl1]; [discriminate|].
  match goal with |- context [Nat.ltb (length d) ?x] => destruct (Nat.ltb_spec (length d) x) as [|Hl2] end; [discriminate|].
  intros Hok. inversion Hok; subst ix; clear Hok. cbn [mi ai xi].
  split; [subst d; reflexivity|]. split; [reflexivity|]. split; [reflexivity|]. split; [reflexivity|].
  split; [exact Hl2|exact Hl1].
Qed.

Lemma idx_ext a b : mi a = mi b -> ai a = ai b -> xi a = xi b -> a = b.
Proof. destruct a as [m1 a1 x1], b as [m2 a2 x2]; cbn [mi ai xi]; intros -> -> ->; reflexivity. Qed.

(* what the authenticator covers determines the indices and every byte before the appendix,
   except TTL (1) and flow control (2) *)
Theorem protected_determines d d' ix ix' :
  parse d = Ok ix -> parse d' = Ok ix' ->
  protected_of d ix <> PNone ->
  protected_of d ix = protected_of d' ix' ->
  ix = ix' /\ forall i, (i < xi ix)%nat -> i <> 1%nat -> i <> 2%nat -> byte_at d i = byte_at d' i.
Proof.
  intros Hp Hp' Hnn Heq.
  destruct (parse_inv _ _ Hp) as (_ & Hmi & Hai & Hxi & Hlen & Hlen2).
  destruct (parse_inv _ _ Hp') as (_ & Hmi' & Hai' & Hxi' & Hlen' & Hlen2').
  pose proof (auth_size_cases (byte_at d 4)) as Hau. pose proof (auth_size_cases (byte_at d' 4)) as Hau'.
  unfold protected_of in *.
  destruct (msg_class (byte_at d 4) =? class_signed) eqn:Hc.
  - (* signed *)
    destruct (msg_class (byte_at d' 4) =? class_signed) eqn:Hc';
      [|destruct ((msg_class (byte_at d' 4) =? class_prio_enc) || (msg_class (byte_at d' 4) =? class_enc)); discriminate].
    inversion Heq as [[Hm Hs]]; clear Heq.
    assert (Hai_eq : ai ix = ai ix').
    { apply (f_equal (@length _)) in Hm. unfold signed_part in Hm.
      rewrite !firstn_length, !zero12_length in Hm. lia. }
    assert (Hb : forall i, (i < ai ix)%nat -> i <> 1%nat -> i <> 2%nat -> byte_at d i = byte_at d' i).
    { intros i Hi H1 H2. unfold byte_at. rewrite <- (zero12_nth d i), <- (zero12_nth d' i) by assumption.
      unfold signed_part in Hm.
      rewrite <- (nth_firstn (zero12 d) (ai ix) i 0), <- (nth_firstn (zero12 d') (ai ix') i 0) by lia.
      rewrite Hm. reflexivity. }
    assert (H4 : byte_at d 4 = byte_at d' 4) by (apply Hb; lia).
    assert (H48 : byte_at d 48 = byte_at d' 48) by (apply Hb; lia).
    assert (Hmi_eq : mi ix = mi ix') by (rewrite Hmi, Hmi', H48; reflexivity).
    assert (Hxi_eq : xi ix = xi ix') by (rewrite Hxi, Hxi', H4, Hai_eq; reflexivity).
    split.
    + apply idx_ext; assumption.
    + intros i Hi H1 H2. destruct (Nat.lt_ge_cases i (ai ix)) as [Hlt|Hge]; [apply Hb; assumption|].
      unfold byte_at. unfold auth_part in Hs.
      rewrite <- (nth_range d (ai ix) (xi ix) i), <- (nth_range d' (ai ix) (xi ix) i) by lia.
      rewrite Hs, Hai_eq, Hxi_eq. reflexivity.
  - destruct ((msg_class (byte_at d 4) =? class_prio_enc) || (msg_class (byte_at d 4) =? class_enc)) eqn:Hce; [|congruence].
    destruct (msg_class (byte_at d' 4) =? class_signed) eqn:Hc'; [discriminate|].
    destruct ((msg_class (byte_at d' 4) =? class_prio_enc) || (msg_class (byte_at d' 4) =? class_enc)) eqn:Hce'; [|discriminate].
    inversion Heq as [[Hn Ha Hct]]; clear Heq.
    assert (Hmi_eq : mi ix = mi ix').
    { apply (f_equal (@length _)) in Ha. unfold aad_part in Ha.
      rewrite !firstn_length, !zero12_length in Ha. lia. }
    assert (Hb : forall i, (i < mi ix + 2)%nat -> i <> 1%nat -> i <> 2%nat -> byte_at d i = byte_at d' i).
    { intros i Hi H1 H2. unfold byte_at. rewrite <- (zero12_nth d i), <- (zero12_nth d' i) by assumption.
      unfold aad_part in Ha.
      rewrite <- (nth_firstn (zero12 d) (mi ix + 2) i 0), <- (nth_firstn (zero12 d') (mi ix' + 2) i 0) by lia.
      rewrite Ha. reflexivity. }
    assert (H4 : byte_at d 4 = byte_at d' 4) by (apply Hb; lia).
    assert (Hm0 : byte_at d (mi ix) = byte_at d' (mi ix)) by (apply Hb; lia).
    assert (Hm1 : byte_at d (mi ix + 1) = byte_at d' (mi ix + 1)) by (apply Hb; lia).
    assert (Hai_eq : ai ix = ai ix') by (rewrite Hai, Hai', <- Hmi_eq, Hm0, Hm1; reflexivity).
    assert (Hxi_eq : xi ix = xi ix') by (rewrite Hxi, Hxi', H4, Hai_eq; reflexivity).
    split.
    + apply idx_ext; assumption.
    + intros i Hi H1 H2. destruct (Nat.lt_ge_cases i (mi ix + 2)) as [Hlt|Hge]; [apply Hb; assumption|].
      unfold byte_at. unfold ct_part in Hct.
      rewrite <- (nth_range d (mi ix + 2) (xi ix) i), <- (nth_range d' (mi ix + 2) (xi ix) i) by lia.
      rewrite Hct, Hmi_eq, Hxi_eq. reflexivity.
Qed.

(* ---------- acceptance implies authenticity; tampering is rejected ---------- *)
Section Auth.
  Variable verify : list N -> list N -> bool.
  Variable aopen : list N -> list N -> list N -> option (list N).
  Variable issued : list protected.
  (* idealised primitives: only what the key owner produced verifies / opens *)
  Hypothesis unforgeable : forall m s, verify m s = true -> In (PSigned m s) issued.
  Hypothesis aead_ideal : forall n a c q, aopen n a c = Some q -> In (PSealed n a c) issued.

  Theorem unseal_authentic d p : unseal verify aopen d = Ok p ->
    exists ix, parse d = Ok ix /\ In (protected_of d ix) issued /\ protected_of d ix <> PNone.
  Proof.
    unfold unseal. destruct (parse d) as [ix| |] eqn:Hp; cbn [bind]; try discriminate.
    destruct (protected_of d ix) as [m s|n a c|] eqn:Hpr; try discriminate.
    - destruct (verify m s) eqn:Hv; [|discriminate]. intros _. exists ix. rewrite Hpr.
      split; [reflexivity|]. split; [|discriminate]. apply unforgeable. exact Hv.
    - destruct (aopen n a c) as [q|] eqn:Ho; [|discriminate]. intros _. exists ix. rewrite Hpr.
      split; [reflexivity|]. split; [|discriminate]. eapply aead_ideal. exact Ho.
  Qed.

  (* A frame that differs from a sealed frame d0 in a protected byte is accepted only if it
     is, on everything the authenticator covers, a *different* frame the key owner sealed. *)
  Theorem tamper_rejected d0 ix0 i v p :
    parse d0 = Ok ix0 -> (i < xi ix0)%nat -> i <> 1%nat -> i <> 2%nat -> v <> byte_at d0 i ->
    unseal verify aopen (set_nth d0 i v) = Ok p ->
    exists q, In q issued /\ q <> protected_of d0 ix0.
  Proof.
    intros Hp0 Hi H1 H2 Hv Hu. destruct (unseal_authentic _ _ Hu) as (ix' & Hp' & Hin & Hnn).
    exists (protected_of (set_nth d0 i v) ix'). split; [exact Hin|]. intros Heq.
    destruct (protected_determines _ _ _ _ Hp' Hp0 Hnn Heq) as [Hix Hb]. subst ix'.
    specialize (Hb i Hi H1 H2). unfold byte_at in Hb.
    destruct (parse_inv _ _ Hp0) as (_ & _ & _ & _ & Hlen & _).
    rewrite nth_set_nth_eq in Hb by lia. apply Hv. exact Hb.
  Qed.
End Auth.

(* when d0 is the only frame sealed under the key, every such mutation is rejected *)
Corollary tamper_rejected_single verify aopen d0 ix0 i v :
  (forall m s, verify m s = true -> PSigned m s = protected_of d0 ix0) ->
  (forall n a c q, aopen n a c = Some q -> PSealed n a c = protected_of d0 ix0) ->
  parse d0 = Ok ix0 -> (i < xi ix0)%nat -> i <> 1%nat -> i <> 2%nat -> v <> byte_at d0 i ->
  forall p, unseal verify aopen (set_nth d0 i v) <> Ok p.
Proof.
  intros Hv Ha Hp Hi H1 H2 Hne p Hu.
  destruct (tamper_rejected verify aopen [protected_of d0 ix0]) with (d0 := d0) (ix0 := ix0) (i := i) (v := v) (p := p)
    as (q & [Hq|[]] & Hneq); try assumption.
  - intros m s H. left. symmetry. apply Hv. exact H.
  - intros n a c q H. left. symmetry. eapply Ha. exact H.
  - apply Hneq. symmetry. exact Hq.
Qed.

(* ---------- TTL, flow control and appendix are free ---------- *)
Lemma firstn_ext_nth (a b : list N) n :
  (n <= length a)%nat -> (n <= length b)%nat ->
  (forall i, (i < n)%nat -> nth i a 0 = nth i b 0) -> firstn n a = firstn n b.
Proof.
  revert a b; induction n as [|n IH]; intros a b Ha Hb H; [reflexivity|].
  destruct a as [|x a]; [cbn [length] in Ha; lia|]. destruct b as [|y b]; [cbn [length] in Hb; lia|].
  cbn [firstn]. f_equal.
  - apply (H 0%nat). lia.
  - apply IH; cbn [length] in *; try lia. intros i Hi. apply (H (S i)). lia.
Qed.

Lemma range_ext_nth (a b : list N) lo hi :
  (hi <= length a)%nat -> (hi <= length b)%nat ->
  (forall i, (lo <= i < hi)%nat -> nth i a 0 = nth i b 0) -> range a lo hi = range b lo hi.
Proof.
  intros Ha Hb H. unfold range. destruct (Nat.le_gt_cases lo hi) as [Hle|Hgt].
  - apply firstn_ext_nth; rewrite ?skipn_length; try lia.
    intros i Hi. rewrite !nth_skipn. apply H. lia.
  - replace (hi - lo)%nat with O by lia. reflexivity.
Qed.

Definition agree_protected (d d' : list N) (x : nat) : Prop :=
  forall i, (i < x)%nat -> i <> 1%nat -> i <> 2%nat -> byte_at d' i = byte_at d i.

Lemma zero12_nth1 d : (3 <= length d)%nat -> nth 1 (zero12 d) 0 = 0.
Proof. intros H. unfold zero12. rewrite (nth_set_nth_neq _ 2 1) by lia. apply nth_set_nth_eq. lia. Qed.
Lemma zero12_nth2 d : (3 <= length d)%nat -> nth 2 (zero12 d) 0 = 0.
Proof. intros H. unfold zero12. apply nth_set_nth_eq. rewrite set_nth_length. lia. Qed.

Lemma zero12_agree d d' x i : agree_protected d d' x -> (i < x)%nat ->
  (3 <= length d)%nat -> (3 <= length d')%nat ->
  nth i (zero12 d') 0 = nth i (zero12 d) 0.
Proof.
  intros Hag Hi Hl Hl'. destruct (Nat.eq_dec i 1) as [->|H1].
  - rewrite !zero12_nth1 by assumption. reflexivity.
  - destruct (Nat.eq_dec i 2) as [->|H2].
    + rewrite !zero12_nth2 by assumption. reflexivity.
    + rewrite !zero12_nth by assumption. apply Hag; assumption.
Qed.

Lemma parse_ext d d' ix :
  parse d = Ok ix -> agree_protected d d' (xi ix) ->
  (xi ix <= length d')%nat -> (mi ix + 19 <= length d')%nat ->
  parse d' = Ok ix.
Proof.
  intros Hp Hag Hx Hm. destruct (parse_inv _ _ Hp) as (H0 & Hmi & Hai & Hxi & Hlen & Hlen2).
  pose proof (auth_size_cases (byte_at d 4)) as Hau.
  assert (E0 : byte_at d' 0 = byte_at d 0) by (apply Hag; lia).
  assert (E4 : byte_at d' 4 = byte_at d 4) by (apply Hag; lia).
  assert (E48 : byte_at d' 48 = byte_at d 48) by (apply Hag; lia).
  assert (Em0 : byte_at d' (mi ix) = byte_at d (mi ix)) by (apply Hag; lia).
  assert (Em1 : byte_at d' (mi ix + 1) = byte_at d (mi ix + 1)) by (apply Hag; lia).
  unfold parse. destruct d' as [|v t] eqn:Hd'; [cbn [length] in Hx; lia|]. rewrite <- Hd' in *.
  assert (Hv : v = 1). { rewrite <- H0, <- E0. subst d'. reflexivity. }
  rewrite Hv. replace (1 =? 1) with true by reflexivity. unfold parse_v1.
  assert (Hmin : (N.of_nat (length d') <? frame_frameV1MinSize) = false).
  { apply N.ltb_ge. change frame_frameV1MinSize with 68. lia. }
  rewrite Hmin, E48, <- Hmi.
  replace (Nat.ltb (length d') (mi ix + 19)) with false by (symmetry; apply Nat.ltb_ge; lia).
  rewrite Em0, Em1, E4, <- Hai, <- Hxi.
  replace (Nat.ltb (length d') (xi ix)) with false by (symmetry; apply Nat.ltb_ge; lia).
  f_equal. apply idx_ext; reflexivity.
Qed.

Lemma protected_ext d d' ix :
  parse d = Ok ix -> agree_protected d d' (xi ix) -> (xi ix <= length d')%nat ->
  protected_of d' ix = protected_of d ix /\ msg_part d' ix = msg_part d ix.
Proof.
  intros Hp Hag Hx. destruct (parse_inv _ _ Hp) as (H0 & Hmi & Hai & Hxi & Hlen & Hlen2).
  pose proof (auth_size_cases (byte_at d 4)) as Hau.
  assert (E4 : byte_at d' 4 = byte_at d 4) by (apply Hag; lia).
  assert (Hr : forall lo hi, (2 < lo)%nat -> (hi <= xi ix)%nat -> range d' lo hi = range d lo hi).
  { intros lo hi Hlo Hhi. apply range_ext_nth; try lia. intros i Hi. apply Hag; lia. }
  assert (Hf : forall n, (n <= xi ix)%nat -> firstn n (zero12 d') = firstn n (zero12 d)).
  { intros n Hn. apply firstn_ext_nth; rewrite ?zero12_length; try lia.
    intros i Hi. apply (zero12_agree d d' (xi ix)); try assumption; lia. }
  split.
  - unfold protected_of. rewrite E4. unfold signed_part, auth_part, nonce_part, aad_part, ct_part.
    rewrite !Hf by lia. rewrite !Hr by lia. reflexivity.
  - unfold msg_part. apply Hr; lia.
Qed.

(* the frame after a hop changed TTL and flow control and replaced the appendix *)
Definition hop_mutate (d : list N) (ix : idx) (ttl flow : N) (apx' : list N) : list N :=
  set_nth (set_nth (firstn (xi ix) d ++ apx') 1 ttl) 2 flow.

Theorem hop_mutable_free verify aopen d ix ttl flow apx' :
  parse d = Ok ix -> (mi ix + 3 <= ai ix)%nat ->      (* a non-empty message, as every built frame has *)
  unseal verify aopen (hop_mutate d ix ttl flow apx') = unseal verify aopen d.
Proof.
  intros Hp Hmsg. destruct (parse_inv _ _ Hp) as (H0 & Hmi & Hai & Hxi & Hlen & Hlen2).
  pose proof (auth_size_cases (byte_at d 4)) as Hau.
  assert (Hl : length (hop_mutate d ix ttl flow apx') = (xi ix + length apx')%nat).
  { unfold hop_mutate. rewrite !set_nth_length, app_length, firstn_length. lia. }
  assert (Hag : agree_protected d (hop_mutate d ix ttl flow apx') (xi ix)).
  { intros i Hi H1 H2. unfold byte_at, hop_mutate. rewrite !nth_set_nth_neq by congruence.
    rewrite app_nth1 by (rewrite firstn_length; lia). apply nth_firstn. exact Hi. }
  assert (Hp' : parse (hop_mutate d ix ttl flow apx') = Ok ix) by (apply (parse_ext d); try assumption; lia).
  destruct (protected_ext d _ ix Hp Hag) as [Hpr Hmp]; [lia|].
  unfold unseal. rewrite Hp, Hp'. cbn [bind]. rewrite Hpr, Hmp. reflexivity.
Qed.

(* ---------- building then parsing is the identity on every field ---------- *)
Lemma nth_app_at {A} (P Q : list A) x d : nth (length P) (P ++ x :: Q) d = x.
Proof. rewrite app_nth2 by lia. rewrite Nat.sub_diag. reflexivity. Qed.

Lemma skipn_app_at {A} (P Q : list A) n : n = length P -> skipn n (P ++ Q) = Q.
Proof. intros ->. rewrite skipn_app, skipn_all, Nat.sub_diag. reflexivity. Qed.

Lemma firstn_app_at {A} (P Q : list A) n : n = length P -> firstn n (P ++ Q) = P.
Proof. intros ->. rewrite firstn_app, firstn_all, Nat.sub_diag. cbn [firstn]. apply app_nil_r. Qed.

Lemma range_app_at (P M Q : list N) lo hi :
  lo = length P -> hi = (length P + length M)%nat -> range (P ++ M ++ Q) lo hi = M.
Proof.
  intros -> ->. unfold range. rewrite skipn_app_at by reflexivity.
  apply firstn_app_at. lia.
Qed.

Lemma header_length ty nonce3 src dst :
  length nonce3 = 3%nat -> length src = 16%nat -> length dst = 16%nat ->
  length (header ty nonce3 src dst) = 48%nat.
Proof. intros H1 H2 H3. unfold header. rewrite !app_length, repeat_length, H1, H2, H3. reflexivity. Qed.

Theorem parse_build ty src dst sb msg apx nonce3 d ix :
  length nonce3 = 3%nat -> length src = 16%nat -> length dst = 16%nat ->
  build ty src dst sb msg apx nonce3 = Ok (d, ix) ->
  parse d = Ok ix /\
  byte_at d 4 = ty /\ src_part d = src /\ dst_part d = dst /\
  switch_block d ix = sb /\ msg_part d ix = msg /\
  auth_part d ix = repeat 0 (auth_size ty) /\ apx_part d ix = apx /\
  byte_at d 1 = 32 /\ byte_at d 2 = 0.
Proof.
  intros Hn Hs Hd Hb. unfold build in Hb.
  destruct (N.ltb_spec 255 (N.of_nat (length sb))) as [|Hsb]; [discriminate|].
  destruct (Nat.eqb_spec (length msg) 0) as [|Hm0]; [discriminate|].
  destruct (N.ltb_spec frame_frameV1MessageLimit (N.of_nat (length msg))) as [|Hml]; [discriminate|].
  destruct (N.ltb_spec frame_frameV1AppendixLimit (N.of_nat (length apx))) as [|Hal]; [discriminate|].
  change frame_frameV1MessageLimit with 10000 in Hml.
  match type of Hb with Ok (?X, ?Y) = _ => assert (Hdd : X = d) by congruence; assert (Hix : Y = ix) by congruence end. clear Hb.
  set (H := header ty nonce3 src dst) in *.
  assert (HH : length H = 48%nat) by (apply header_length; assumption).
  set (L := N.of_nat (length msg)) in *.
  set (au := auth_size ty) in *.
  assert (Hau : au = 16%nat \/ au = 64%nat) by apply auth_size_cases.
  set (P1 := H ++ [N.of_nat (length sb)]).
  set (P2 := P1 ++ sb).
  set (P3 := P2 ++ be16 L).
  set (P4 := P3 ++ msg).
  set (P5 := P4 ++ repeat 0 au).
  assert (HP1 : length P1 = 49%nat) by (unfold P1; rewrite app_length, HH; reflexivity).
  assert (HP2 : length P2 = (49 + length sb)%nat) by (unfold P2; rewrite app_length, HP1; reflexivity).
  assert (HP3 : length P3 = (49 + length sb + 2)%nat) by (unfold P3; rewrite app_length, HP2; reflexivity).
  assert (HP4 : length P4 = (49 + length sb + 2 + length msg)%nat) by (unfold P4; rewrite app_length, HP3; reflexivity).
  assert (HP5 : length P5 = (49 + length sb + 2 + length msg + au)%nat) by (unfold P5; rewrite app_length, HP4, repeat_length; reflexivity).
  assert (Ed : d = P5 ++ apx).
  { rewrite <- Hdd. unfold P5, P4, P3, P2, P1. rewrite <- !app_assoc. reflexivity. }
  assert (Hlen : length d = (49 + length sb + 2 + length msg + au + length apx)%nat) by (rewrite Ed, app_length, HP5; reflexivity).
  (* individual bytes *)
  assert (B0 : byte_at d 0 = 1) by (rewrite <- Hdd; reflexivity).
  assert (B1 : byte_at d 1 = 32) by (rewrite <- Hdd; reflexivity).
  assert (B2 : byte_at d 2 = 0) by (rewrite <- Hdd; reflexivity).
  assert (B4 : byte_at d 4 = ty) by (rewrite <- Hdd; reflexivity).
  assert (B48 : byte_at d 48 = N.of_nat (length sb)).
  { unfold byte_at. rewrite <- Hdd. rewrite <- HH. apply nth_app_at. }
  assert (Bm0 : byte_at d (49 + length sb) = (L / 256) mod 256).
  { unfold byte_at. rewrite Ed. unfold P5, P4, P3. rewrite <- !app_assoc. rewrite <- HP2. apply nth_app_at. }
  assert (Bm1 : byte_at d (49 + length sb + 1) = L mod 256).
  { unfold byte_at. rewrite Ed. unfold P5, P4, P3. rewrite <- !app_assoc.
    replace (P2 ++ be16 L ++ msg ++ repeat 0 au ++ apx) with ((P2 ++ [(L / 256) mod 256]) ++ (L mod 256) :: msg ++ repeat 0 au ++ apx)
      by (rewrite <- app_assoc; reflexivity).
    replace (49 + length sb + 1)%nat with (length (P2 ++ [(L / 256) mod 256])) by (rewrite app_length, HP2; reflexivity).
    apply nth_app_at. }
  assert (Hmsz : N.to_nat ((L / 256) mod 256 * 256 + L mod 256) = length msg).
  { replace ((L / 256) mod 256) with (L / 256) by (symmetry; apply N.mod_small; unfold L in *; lia).
    replace (L / 256 * 256 + L mod 256) with L by (unfold L; lia). unfold L. apply Nat2N.id. }
  assert (Hix' : ix = mkIdx (49 + length sb) (49 + length sb + 2 + length msg) (49 + length sb + 2 + length msg + au)) by (symmetry; exact Hix).
  split.
  { unfold parse. destruct d as [|v t] eqn:Hdv; [cbn [length] in Hlen; lia|]. rewrite <- Hdv in *.
    assert (Hv : v = 1) by (rewrite <- B0; subst d; reflexivity). rewrite Hv.
    replace (1 =? 1) with true by reflexivity. unfold parse_v1.
    replace (N.of_nat (length d) <? frame_frameV1MinSize) with false
      by (symmetry; apply N.ltb_ge; change frame_frameV1MinSize with 68; lia).
    rewrite B48, Nat2N.id.
    replace (Nat.ltb (length d) (49 + length sb + 19)) with false by (symmetry; apply Nat.ltb_ge; lia).
    rewrite Bm0, Bm1, Hmsz, B4. fold au.
    replace (Nat.ltb (length d) (49 + length sb + 2 + length msg + au)) with false by (symmetry; apply Nat.ltb_ge; lia).
    rewrite Hix'. reflexivity. }
  rewrite Hix'. unfold src_part, dst_part, switch_block, msg_part, auth_part, apx_part. cbn [mi ai xi].
  split; [exact B4|].
  split. { rewrite <- Hdd. unfold H, header.
    replace (([1; 32; 0; 0; ty] ++ nonce3 ++ repeat 0 8 ++ src ++ dst) ++ [N.of_nat (length sb)] ++ sb ++ be16 L ++ msg ++ repeat 0 au ++ apx)
      with (([1; 32; 0; 0; ty] ++ nonce3 ++ repeat 0 8) ++ src ++ (dst ++ [N.of_nat (length sb)] ++ sb ++ be16 L ++ msg ++ repeat 0 au ++ apx))
      by (rewrite <- !app_assoc; reflexivity).
    apply range_app_at; rewrite !app_length, repeat_length, Hn; cbn [length]; lia. }
  split. { rewrite <- Hdd. unfold H, header.
    replace (([1; 32; 0; 0; ty] ++ nonce3 ++ repeat 0 8 ++ src ++ dst) ++ [N.of_nat (length sb)] ++ sb ++ be16 L ++ msg ++ repeat 0 au ++ apx)
      with (([1; 32; 0; 0; ty] ++ nonce3 ++ repeat 0 8 ++ src) ++ dst ++ ([N.of_nat (length sb)] ++ sb ++ be16 L ++ msg ++ repeat 0 au ++ apx))
      by (rewrite <- !app_assoc; reflexivity).
    apply range_app_at; rewrite !app_length, repeat_length, Hn, Hs; cbn [length]; lia. }
  split. { rewrite Ed. unfold P5, P4, P3, P2. rewrite <- !app_assoc. apply range_app_at; lia. }
  split. { rewrite Ed. unfold P5, P4. rewrite <- !app_assoc. apply range_app_at; lia. }
  split. { rewrite Ed. unfold P5. rewrite <- !app_assoc. apply range_app_at; rewrite ?repeat_length; lia. }
  split. { rewrite Ed. apply skipn_app_at. lia. }
  split; assumption.
Qed.

(* ---------- seal then unseal ---------- *)
Lemma write_bytes_length v : forall d pos, length (write_bytes d pos v) = length d.
Proof. induction v as [|b t IH]; intros d pos; cbn [write_bytes]; [reflexivity|]. rewrite IH, set_nth_length. reflexivity. Qed.

Lemma nth_write_bytes_out v : forall d pos i, (i < pos \/ pos + length v <= i)%nat ->
  nth i (write_bytes d pos v) 0 = nth i d 0.
Proof.
  induction v as [|b t IH]; intros d pos i H; cbn [write_bytes length] in *; [reflexivity|].
  rewrite IH by lia. apply nth_set_nth_neq. lia.
Qed.

Lemma nth_write_bytes_in v : forall d pos i, (pos <= i < pos + length v)%nat -> (pos + length v <= length d)%nat ->
  nth i (write_bytes d pos v) 0 = nth (i - pos) v 0.
Proof.
  induction v as [|b t IH]; intros d pos i H Hl; cbn [write_bytes length] in *; [lia|].
  destruct (Nat.eq_dec i pos) as [->|Hne].
  - rewrite nth_write_bytes_out by lia. rewrite nth_set_nth_eq by lia. rewrite Nat.sub_diag. reflexivity.
  - rewrite IH by (rewrite ?set_nth_length; lia). replace (i - pos)%nat with (S (i - S pos)) by lia. reflexivity.
Qed.

Lemma list_ext_nth (a b : list N) : length a = length b -> (forall i, (i < length a)%nat -> nth i a 0 = nth i b 0) -> a = b.
Proof.
  intros Hl H. rewrite <- (firstn_all a), <- (firstn_all b), <- Hl. apply firstn_ext_nth; try lia. exact H.
Qed.

Lemma range_write_bytes d pos v : (pos + length v <= length d)%nat ->
  range (write_bytes d pos v) pos (pos + length v) = v.
Proof.
  intros H. apply list_ext_nth.
  - rewrite range_length by (rewrite write_bytes_length; lia). lia.
  - intros i Hi. rewrite range_length in Hi by (rewrite write_bytes_length; lia).
    replace i with ((pos + i) - pos)%nat at 1 by lia. rewrite nth_range by lia.
    rewrite nth_write_bytes_in by lia. f_equal. lia.
Qed.

(* the class table and the IsEncrypted table of the compiled code agree, for all 256 types *)
Lemma enc_class_consistent : forall ty, ty < 256 ->
  is_enc ty = (msg_class ty =? class_prio_enc) || (msg_class ty =? class_enc).
Proof.
  assert (H : N.recursion true (fun k acc => acc && Bool.eqb (is_enc k) ((msg_class k =? class_prio_enc) || (msg_class k =? class_enc))) 256 = true)
    by (vm_compute; reflexivity).
  intros ty Hty.
  assert (G : forall n, N.recursion true (fun k acc => acc && Bool.eqb (is_enc k) ((msg_class k =? class_prio_enc) || (msg_class k =? class_enc))) n = true ->
              forall k, k < n -> is_enc k = (msg_class k =? class_prio_enc) || (msg_class k =? class_enc)).
  { induction n as [|n IH] using N.peano_ind; intros Hn k Hk; [lia|].
    rewrite N.recursion_succ in Hn; [|reflexivity|intros ? ? -> ? ? ->; reflexivity].
    apply andb_true_iff in Hn as [H1 H2].
    destruct (N.eq_dec k n) as [->|Hne]; [apply eqb_prop; exact H2|apply IH; [exact H1|lia]]. }
  apply (G 256 H). exact Hty.
Qed.

Lemma signed_not_enc : forall ty, ty < 256 -> (msg_class ty =? class_signed) = true -> is_enc ty = false.
Proof.
  intros ty Hty Hc. rewrite enc_class_consistent by assumption. apply N.eqb_eq in Hc. rewrite Hc. reflexivity.
Qed.

Lemma parse_same d d' ix :
  parse d = Ok ix -> length d' = length d ->
  byte_at d' 0 = byte_at d 0 -> byte_at d' 4 = byte_at d 4 -> byte_at d' 48 = byte_at d 48 ->
  byte_at d' (mi ix) = byte_at d (mi ix) -> byte_at d' (mi ix + 1) = byte_at d (mi ix + 1) ->
  parse d' = Ok ix.
Proof.
  intros Hp Hl E0 E4 E48 Em0 Em1. destruct (parse_inv _ _ Hp) as (H0 & Hmi & Hai & Hxi & Hlen & Hlen2).
  pose proof (auth_size_cases (byte_at d 4)) as Hau.
  unfold parse. destruct d' as [|v t] eqn:Hd'; [cbn [length] in Hl; lia|]. rewrite <- Hd' in *.
  assert (Hv : v = 1). { rewrite <- H0, <- E0. subst d'. reflexivity. }
  rewrite Hv. replace (1 =? 1) with true by reflexivity. unfold parse_v1.
  assert (Hmin : (N.of_nat (length d') <? frame_frameV1MinSize) = false).
  { apply N.ltb_ge. change frame_frameV1MinSize with 68. lia. }
  rewrite Hmin, E48, <- Hmi.
  replace (Nat.ltb (length d') (mi ix + 19)) with false by (symmetry; apply Nat.ltb_ge; lia).
  rewrite Em0, Em1, E4, <- Hai, <- Hxi.
  replace (Nat.ltb (length d') (xi ix)) with false by (symmetry; apply Nat.ltb_ge; lia).
  f_equal. apply idx_ext; reflexivity.
Qed.

Lemma zero12_firstn_agree (a b : list N) n :
  length a = length b -> (3 <= length a)%nat -> (n <= length a)%nat ->
  (forall i, (i < n)%nat -> i <> 1%nat -> i <> 2%nat -> nth i a 0 = nth i b 0) ->
  firstn n (zero12 a) = firstn n (zero12 b).
Proof.
  intros Hl H3 Hn H. apply firstn_ext_nth; rewrite ?zero12_length; try lia.
  intros i Hi. destruct (Nat.eq_dec i 1) as [->|H1]; [rewrite !zero12_nth1 by lia; reflexivity|].
  destruct (Nat.eq_dec i 2) as [->|H2]; [rewrite !zero12_nth2 by lia; reflexivity|].
  rewrite !zero12_nth by assumption. apply H; assumption.
Qed.

Section RoundTrip.
  Variable verify : list N -> list N -> bool.
  Variable aopen : list N -> list N -> list N -> option (list N).
  Variable sign : list N -> list N.
  Variable aseal : list N -> list N -> list N -> list N.
  Hypothesis sign_len : forall m, length (sign m) = 64%nat.
  Hypothesis verify_sign : forall m, verify m (sign m) = true.
  Hypothesis aseal_len : forall n a p, length (aseal n a p) = (length p + 16)%nat.
  Hypothesis open_seal : forall n a p, aopen n a (aseal n a p) = Some p.

  Theorem unseal_seal_enc d ix seq ack rate :
    parse d = Ok ix -> byte_at d 4 < 256 ->
    ((msg_class (byte_at d 4) =? class_prio_enc) || (msg_class (byte_at d 4) =? class_enc)) = true ->
    let d2 := seal_enc aseal d ix seq ack rate in
    unseal verify aopen d2 = Ok (msg_part d ix) /\
    length d2 = length d /\
    (* the message range of the sealed frame holds ciphertext only *)
    msg_part d2 ix = firstn (ai ix - (mi ix + 2)) (aseal (nonce_part d2) (aad_part d2 ix) (msg_part d ix)).
  Proof.
    intros Hp Hty Hcls. cbv zeta.
    destruct (parse_inv _ _ Hp) as (H0 & Hmi & Hai & Hxi & Hlen & Hlen2).
    assert (Henc : is_enc (byte_at d 4) = true) by (rewrite enc_class_consistent by assumption; exact Hcls).
    assert (Hx16 : xi ix = (ai ix + 16)%nat) by (rewrite Hxi; unfold auth_size; rewrite Henc; reflexivity).
    unfold seal_enc.
    set (d1 := set_nth (write_bytes (write_bytes d 8 (be32 seq)) 12 (be32 ack)) 3 rate).
    assert (Hl1 : length d1 = length d) by (unfold d1; rewrite set_nth_length, !write_bytes_length; reflexivity).
    assert (Hd1 : forall i, (i < 3 \/ (3 < i < 8) \/ 16 <= i)%nat -> nth i d1 0 = nth i d 0).
    { intros i Hi. unfold d1. rewrite nth_set_nth_neq by lia.
      rewrite !nth_write_bytes_out by (cbn [be32 length]; lia). reflexivity. }
    assert (Hmp1 : msg_part d1 ix = msg_part d ix).
    { unfold msg_part. apply range_ext_nth; try lia. intros i Hi. apply Hd1. lia. }
    set (ct := aseal (nonce_part d1) (aad_part d1 ix) (msg_part d1 ix)).
    assert (Hct : length ct = (xi ix - (mi ix + 2))%nat).
    { unfold ct. rewrite aseal_len, Hmp1. unfold msg_part. rewrite range_length by lia. lia. }
    set (d2 := write_bytes d1 (mi ix + 2) ct).
    assert (Hl2 : length d2 = length d) by (unfold d2; rewrite write_bytes_length; exact Hl1).
    assert (Hd2 : forall i, (i < mi ix + 2)%nat -> nth i d2 0 = nth i d1 0).
    { intros i Hi. unfold d2. apply nth_write_bytes_out. lia. }
    assert (Hp2 : parse d2 = Ok ix).
    { apply (parse_same d); try assumption; unfold byte_at; rewrite Hd2 by lia; apply Hd1; lia. }
    assert (Hnonce : nonce_part d2 = nonce_part d1).
    { unfold nonce_part. apply range_ext_nth; try lia. intros i Hi. apply Hd2. lia. }
    assert (Haad : aad_part d2 ix = aad_part d1 ix).
    { unfold aad_part. apply zero12_firstn_agree; try lia. intros i Hi _ _. apply Hd2. exact Hi. }
    assert (Hctp : ct_part d2 ix = ct).
    { unfold ct_part, d2. replace (xi ix) with (mi ix + 2 + length ct)%nat by lia.
      apply range_write_bytes. lia. }
    assert (Hcls2 : byte_at d2 4 = byte_at d 4) by (unfold byte_at; rewrite Hd2 by lia; apply Hd1; lia).
    split; [|split].
    - unfold unseal. rewrite Hp2. cbn [bind]. unfold protected_of. rewrite Hcls2.
      destruct (msg_class (byte_at d 4) =? class_signed) eqn:Hs.
      { exfalso. rewrite (signed_not_enc _ Hty Hs) in Henc. discriminate. }
      rewrite Hcls. rewrite Hnonce, Haad, Hctp. unfold ct. rewrite open_seal, Hmp1. reflexivity.
    - exact Hl2.
    - rewrite Hnonce, Haad, <- Hmp1. fold ct.
      unfold msg_part. unfold range.
      assert (Hall : firstn (xi ix - (mi ix + 2)) (skipn (mi ix + 2) d2) = ct) by exact Hctp.
      rewrite <- Hall. rewrite firstn_firstn. f_equal. lia.
  Qed.

  Theorem unseal_seal_signed d ix t :
    parse d = Ok ix -> byte_at d 4 < 256 -> (msg_class (byte_at d 4) =? class_signed) = true ->
    let d2 := seal_signed sign d ix t in
    unseal verify aopen d2 = Ok (msg_part d ix) /\ length d2 = length d.
  Proof.
    intros Hp Hty Hcls. cbv zeta.
    destruct (parse_inv _ _ Hp) as (H0 & Hmi & Hai & Hxi & Hlen & Hlen2).
    assert (Henc : is_enc (byte_at d 4) = false) by (apply signed_not_enc; assumption).
    assert (Hx64 : xi ix = (ai ix + 64)%nat) by (rewrite Hxi; unfold auth_size; rewrite Henc; reflexivity).
    unfold seal_signed.
    set (d1 := write_bytes d 8 (be64 t)).
    assert (Hl1 : length d1 = length d) by (unfold d1; rewrite write_bytes_length; reflexivity).
    assert (Hd1 : forall i, (i < 8 \/ 16 <= i)%nat -> nth i d1 0 = nth i d 0).
    { intros i Hi. unfold d1. apply nth_write_bytes_out. cbn [be64 be32 app length]. lia. }
    set (sg := sign (signed_part d1 ix)).
    set (d2 := write_bytes d1 (ai ix) sg).
    assert (Hsg : length sg = 64%nat) by apply sign_len.
    assert (Hl2 : length d2 = length d) by (unfold d2; rewrite write_bytes_length; exact Hl1).
    assert (Hd2 : forall i, (i < ai ix)%nat -> nth i d2 0 = nth i d1 0).
    { intros i Hi. unfold d2. apply nth_write_bytes_out. lia. }
    assert (Hp2 : parse d2 = Ok ix).
    { apply (parse_same d); try assumption; unfold byte_at; rewrite Hd2 by lia; apply Hd1; lia. }
    assert (Hsp : signed_part d2 ix = signed_part d1 ix).
    { unfold signed_part. apply zero12_firstn_agree; try lia. intros i Hi _ _. apply Hd2. exact Hi. }
    assert (Hap : auth_part d2 ix = sg).
    { unfold auth_part, d2. replace (xi ix) with (ai ix + length sg)%nat by lia. apply range_write_bytes. lia. }
    assert (Hmp : msg_part d2 ix = msg_part d ix).
    { unfold msg_part. apply range_ext_nth; try lia. intros i Hi. rewrite Hd2 by lia. apply Hd1. lia. }
    assert (Hcls2 : byte_at d2 4 = byte_at d 4) by (unfold byte_at; rewrite Hd2 by lia; apply Hd1; lia).
    split; [|exact Hl2].
    unfold unseal. rewrite Hp2. cbn [bind]. unfold protected_of. rewrite Hcls2, Hcls.
    rewrite Hsp, Hap. unfold sg. rewrite verify_sign, Hmp. reflexivity.
  Qed.
End RoundTrip.
