(* PoolCorr.v — correspondence for C17: the model is stepped through the same operation
   sequence as the real builder (pool choices observed on the implementation and fed in as the
   oracle); after every operation the observable state of every live frame is compared. *)
From Verif Require Import Prelude Gen SeqCorr Frame Pool.

(* observation of one live frame: id, data bytes, mi, ai, xi, src(16), dst(16), link id,
   buffer capacity, psDataOffset, whether the pooled slice is zero outside the data *)
Definition fobs := (N * list N * N * N * N * list N * list N * N * N * N * bool)%type.

Definition eff_addr (cached : list N) (fromdata : list N) : list N :=
  if Nat.eqb (length cached) 16 then cached else fromdata.

Definition observe_frame (s : st) (p : nat * fr) : fobs :=
  let '(id, f) := p in
  let d := frame_data s f in
  let bb := match f_buf f with Some b => match lookup b (heap s) with Some x => x | None => mkBuf 0 [] end | None => mkBuf 0 [] end in
  (N.of_nat id, d, N.of_nat (mi (f_ix f)), N.of_nat (ai (f_ix f)), N.of_nat (xi (f_ix f)),
   eff_addr (f_src f) (src_part d), eff_addr (f_dst f) (dst_part d), f_link f,
   N.of_nat (cap bb), N.of_nat (f_off f), buf_zero_outside bb (f_off f) (f_off f + f_len f)).

Definition fobs_eqb (a b : fobs) : bool :=
  let '(i1, d1, m1, a1, x1, s1, t1, l1, c1, o1, z1) := a in
  let '(i2, d2, m2, a2, x2, s2, t2, l2, c2, o2, z2) := b in
  (i1 =? i2) && bytes_eqb d1 d2 && (m1 =? m2) && (a1 =? a2) && (x1 =? x2) && bytes_eqb s1 s2 && bytes_eqb t1 t2 &&
  (l1 =? l2) && (c1 =? c2) && (o1 =? o2) && Bool.eqb z1 z2.

Fixpoint insert_obs (o : fobs) (l : list fobs) : list fobs :=
  match l with
  | [] => [o]
  | h :: t => if (fst (fst (fst (fst (fst (fst (fst (fst (fst (fst o)))))))))) <=? (fst (fst (fst (fst (fst (fst (fst (fst (fst (fst h))))))))))
              then o :: l else h :: insert_obs o t
  end.
Definition sort_obs (l : list fobs) : list fobs := fold_right insert_obs [] l.

Definition observe (s : st) : list fobs := sort_obs (map (observe_frame s) (live s)).

(* one step of a sequence: the op, the observed outcome code (0 ok, 1 error, 3 panic) and the
   observed frames afterwards (sorted by id) *)
Definition sobs := (op * N * list fobs)%type.

Fixpoint run_seq (s : st) (l : list sobs) : bool :=
  match l with
  | [] => true
  | (o, code, frames) :: t =>
    match step s o with
    | Ok (s', _) => (code =? 0) && list_eqb fobs_eqb (observe s') frames && inv_b s' && run_seq s' t
    | Err _ => (code =? 1) && list_eqb fobs_eqb (observe s) frames && run_seq s t
    | Panic => (code =? 3) && run_seq s t
    end
  end.

Definition c17_case := list sobs.
Definition c17_ok (c : c17_case) : bool := run_seq st_init c.
