(* MalformedCorr.v — correspondence for C13 (no proofs): outcome classes only
   (0 = handled without error, 1 = error returned, 3 = panic). *)
From Verif Require Import Prelude SeqCorr Malformed.

Definition cls {A} (r : res A) : N := match r with Ok _ => 0 | Err _ => 1 | Panic => 3 end.

(* kind 0: ping split (len, byte1, header ok) ; kind 1: announcement layers (infos, len);
   kind 2: traffic packet (len, proto).  Observed class of the stage. *)
Inductive c13_in :=
| IPing (len : nat) (b1 : N) (hdr_ok : bool)
| IAnn (infos : list linfo) (len : nat)
| ITraffic (len : nat) (proto : N).
Definition c13_case := (c13_in * N)%type.
Definition c13_ok (c : c13_case) : bool :=
  let '(i, obs) := c in
  match i with
  | IPing len b1 h =>
    match ping_split len b1 h with
    | Ok _ => (obs =? 0) || (obs =? 1)      (* the handler may still return an error *)
    | Err _ => obs =? 1
    | Panic => obs =? 3
    end
  | IAnn infos len =>
    (* looping (Err 10) is ignored by the handler: observed as handled *)
    match ann_layers infos len with
    | Err 10 => obs =? 0
    | Ok _ => (obs =? 0) || (obs =? 1)      (* later stages (peer check, AddRoute) may still return an error *)
    | Err _ => obs =? 1
    | Panic => obs =? 3
    end
  | ITraffic len proto =>
    match traffic_meta len proto with
    | Ok _ => (obs =? 0) || (obs =? 1)      (* integrity / policy may still reject *)
    | Err _ => obs =? 1
    | Panic => obs =? 3
    end
  end.
