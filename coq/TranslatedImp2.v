(* TranslatedImp2.v — SwitchPath.CalculateBlockSize as translated from m/switch_label.go (three
   generated loops, one of them nested) computes the model's calc_size for every hop list. *)
From Verif Require Import Prelude Gen SwitchLabel SwitchLabelProofs Translated TranslatedDec TranslatedImp.
From Coq Require Import ZifyBool ZifyNat ZifyN.

Definition eF (hops : list (N * N)) (i : nat) : N := N.of_nat (esize (fst (nth i hops (0, 0)))).
Definition eR (hops : list (N * N)) (i : nat) : N := N.of_nat (esize (snd (nth i hops (0, 0)))).

Lemma go_set_length m i v : (0 <= i)%Z -> (Z.to_nat i < length m)%nat -> length (go_set m i v) = length m.
Proof.
  intros H0 H. unfold go_set. rewrite app_length, firstn_length. cbn [length]. rewrite skipn_length. lia.
Qed.

Lemma go_set_nth m i v idx : (0 <= i)%Z -> (Z.to_nat i < length m)%nat ->
  nth idx (go_set m i v) 0 = if Nat.eqb idx (Z.to_nat i) then Z.to_N v else nth idx m 0.
Proof.
  intros H0 H. unfold go_set.
  destruct (Nat.eqb_spec idx (Z.to_nat i)) as [He|Hne].
  - subst idx. rewrite app_nth2 by (rewrite firstn_length; lia).
    rewrite firstn_length. replace (Z.to_nat i - Nat.min (Z.to_nat i) (length m))%nat with 0%nat by lia. reflexivity.
  - destruct (Nat.lt_ge_cases idx (Z.to_nat i)) as [Hlt|Hge].
    + rewrite app_nth1 by (rewrite firstn_length; lia). apply nth_firstn_lt'. exact Hlt.
    + rewrite app_nth2 by (rewrite firstn_length; lia). rewrite firstn_length.
      replace (idx - Nat.min (Z.to_nat i) (length m))%nat with (S (idx - Z.to_nat i - 1)) by lia.
      cbn [nth]. rewrite nth_skipn'. f_equal. lia.
Qed.

Lemma enc_size_N x : go_SwitchLabel_EncodedSize (Z.to_N (Z.of_N x)) = Z.of_nat (esize x).
Proof. rewrite N2Z.id. apply go_encoded_size_is_model. Qed.

(* loop 1: the size simulation *)
Definition set2 (hops : list (N * N)) (i : nat) (mem : list N) : list N :=
  let n := length hops in
  go_set (go_set mem (Z.of_nat i) (Z.of_N (eF hops i))) (Z.of_nat (n - 1 + i)) (Z.of_N (eR hops i)).

Lemma loop1_step hops sz fuel i mem : let n := length hops in
  (i < n)%nat -> length mem = (2 * n - 1)%nat ->
  go_SwitchPath_CalculateBlockSize_loop1 (S fuel) (Z.of_nat i) mem hops sz =
  go_SwitchPath_CalculateBlockSize_loop1 fuel (Z.of_nat (S i)) (set2 hops i mem) hops sz.
Proof.
  intros n Hi Hlen. cbn [go_SwitchPath_CalculateBlockSize_loop1]. fold n.
  replace (Z.of_nat i <? Z.of_nat n)%Z with true by lia. cbn [negb].
  unfold go_len. rewrite Hlen.
  replace (go_inb (Z.of_nat n) (Z.of_nat i) && go_inb (Z.of_nat (2 * n - 1) - 0) (Z.of_nat i)) with true
    by (unfold go_inb; lia).
  cbn [negb]. rewrite Nat2Z.id, !enc_size_N.
  rewrite go_set_length by lia. rewrite Hlen.
  replace (go_inb (Z.of_nat n) (Z.of_nat i) && go_inb (Z.of_nat (2 * n - 1) - 0) (Z.of_nat n + Z.of_nat i - 1)) with true
    by (unfold go_inb; lia).
  cbn [negb]. unfold set2, eF, eR. fold n.
  replace (Z.of_nat i + 1)%Z with (Z.of_nat (S i)) by lia.
  replace (0 + Z.of_nat i)%Z with (Z.of_nat i) by lia.
  replace (0 + (Z.of_nat n + Z.of_nat i - 1))%Z with (Z.of_nat (n - 1 + i)) by lia.
  rewrite !nat_N_Z. reflexivity.
Qed.

Lemma set2_length hops i mem : let n := length hops in
  (i < n)%nat -> length mem = (2 * n - 1)%nat -> length (set2 hops i mem) = (2 * n - 1)%nat.
Proof. intros n Hi Hlen. unfold set2. fold n. rewrite !go_set_length; rewrite ?go_set_length; lia. Qed.

Lemma set2_nth hops i mem idx : let n := length hops in
  (i < n)%nat -> length mem = (2 * n - 1)%nat ->
  nth idx (set2 hops i mem) 0 =
    if Nat.eqb idx (n - 1 + i) then eR hops i else if Nat.eqb idx i then eF hops i else nth idx mem 0.
Proof.
  intros n Hi Hlen. unfold set2. fold n.
  rewrite go_set_nth by (rewrite ?go_set_length; lia). rewrite go_set_nth by lia.
  rewrite !Nat2Z.id, !N2Z.id. reflexivity.
Qed.

Lemma loop1_spec hops sz : let n := length hops in
  eF hops (n - 1) = eR hops 0 ->
  forall fuel i mem, length mem = (2 * n - 1)%nat -> (i <= n)%nat -> (n - i <= fuel)%nat -> (1 <= n)%nat ->
  exists mem', go_SwitchPath_CalculateBlockSize_loop1 fuel (Z.of_nat i) mem hops sz = Some mem' /\
    length mem' = (2 * n - 1)%nat /\
    forall idx, nth idx mem' 0 =
      if Nat.leb i idx && Nat.ltb idx n then eF hops idx
      else if Nat.leb (n - 1 + i) idx && Nat.ltb idx (2 * n - 1) then eR hops (idx - (n - 1))
      else nth idx mem 0.
Proof.
  intros n Hc fuel. induction fuel as [|fuel IH]; intros i mem Hlen Hi Hf Hn.
  - assert (i = n) by lia. subst i. exists mem. cbn [go_SwitchPath_CalculateBlockSize_loop1].
    split; [reflexivity|]. split; [exact Hlen|]. intros idx.
    replace (Nat.leb n idx && Nat.ltb idx n) with false by lia.
    replace (Nat.leb (n - 1 + n) idx && Nat.ltb idx (2 * n - 1)) with false by lia. reflexivity.
  - destruct (Nat.eq_dec i n) as [He|Hne].
    + subst i. cbn [go_SwitchPath_CalculateBlockSize_loop1]. fold n.
      replace (Z.of_nat n <? Z.of_nat n)%Z with false by lia. cbn [negb].
      exists mem. split; [reflexivity|]. split; [exact Hlen|]. intros idx.
      replace (Nat.leb n idx && Nat.ltb idx n) with false by lia.
      replace (Nat.leb (n - 1 + n) idx && Nat.ltb idx (2 * n - 1)) with false by lia. reflexivity.
    + rewrite (loop1_step hops sz fuel i mem ltac:(fold n; lia) Hlen).
      pose proof (set2_length hops i mem ltac:(fold n; lia) Hlen) as Hl3. fold n in Hl3.
      destruct (IH (S i) (set2 hops i mem) Hl3 ltac:(lia) ltac:(lia) Hn) as (mem' & Hrun & Hl' & Hnth).
      exists mem'. split; [exact Hrun|]. split; [exact Hl'|]. intros idx. rewrite Hnth.
      rewrite (set2_nth hops i mem idx ltac:(fold n; lia) Hlen). fold n.
      destruct (Nat.eq_dec idx (n - 1 + i)) as [Hri|Hri].
      * subst idx. rewrite Nat.eqb_refl.
        replace (Nat.leb (n - 1 + S i) (n - 1 + i) && Nat.ltb (n - 1 + i) (2 * n - 1)) with false by lia.
        replace (Nat.leb (n - 1 + i) (n - 1 + i) && Nat.ltb (n - 1 + i) (2 * n - 1)) with true by lia.
        replace (n - 1 + i - (n - 1))%nat with i by lia.
        destruct (Nat.leb (S i) (n - 1 + i) && Nat.ltb (n - 1 + i) n) eqn:Hb1.
        -- assert (i = 0%nat) by lia. subst i.
           replace (Nat.leb 0 (n - 1 + 0) && Nat.ltb (n - 1 + 0) n) with true by lia. reflexivity.
        -- destruct (Nat.leb i (n - 1 + i) && Nat.ltb (n - 1 + i) n) eqn:Hb2.
           ++ assert (i = 0%nat) by lia. subst i. replace (n - 1 + 0)%nat with (n - 1)%nat by lia.
              rewrite Hc. reflexivity.
           ++ reflexivity.
      * replace (Nat.eqb idx (n - 1 + i)) with false by (symmetry; apply Nat.eqb_neq; exact Hri).
        destruct (Nat.eq_dec idx i) as [Hii|Hii].
        -- subst idx. rewrite Nat.eqb_refl.
           replace (Nat.leb (S i) i && Nat.ltb i n) with false by lia.
           replace (Nat.leb i i && Nat.ltb i n) with true by lia.
           replace (Nat.leb (n - 1 + S i) i && Nat.ltb i (2 * n - 1)) with false by lia. reflexivity.
        -- replace (Nat.eqb idx i) with false by (symmetry; apply Nat.eqb_neq; exact Hii).
           destruct (Nat.leb (S i) idx && Nat.ltb idx n) eqn:Hb1.
           ++ replace (Nat.leb i idx && Nat.ltb idx n) with true by lia. reflexivity.
           ++ replace (Nat.leb i idx && Nat.ltb idx n) with false by lia.
              destruct (Nat.leb (n - 1 + S i) idx && Nat.ltb idx (2 * n - 1)) eqn:Hb2.
              ** replace (Nat.leb (n - 1 + i) idx && Nat.ltb idx (2 * n - 1)) with true by lia. reflexivity.
              ** replace (Nat.leb (n - 1 + i) idx && Nat.ltb idx (2 * n - 1)) with false by lia. reflexivity.
Qed.

(* loop 3 (inner): the sum of one window *)
Definition nsum (l : list N) : nat := sum_nat (map N.to_nat l).

Lemma loop3_spec hops sz iv mem : forall fuel j acc bound,
  bound = (iv + Z.of_nat (length hops) - 1)%Z ->
  (Z.of_nat j <= bound)%Z -> (bound - Z.of_nat j <= Z.of_nat fuel)%Z -> (bound <= Z.of_nat (length mem))%Z ->
  go_SwitchPath_CalculateBlockSize_loop3 fuel (Z.of_nat j) mem hops sz iv acc =
    Some ((acc + Z.of_nat (nsum (firstn (Z.to_nat bound - j) (skipn j mem))))%Z, mem).
Proof.
  induction fuel as [|fuel IH]; intros j acc bound Hb Hj Hf Hlen.
  - cbn [go_SwitchPath_CalculateBlockSize_loop3].
    replace (Z.to_nat bound - j)%nat with 0%nat by lia. cbn. f_equal. f_equal. lia.
  - cbn [go_SwitchPath_CalculateBlockSize_loop3]. rewrite <- Hb.
    destruct (Z.ltb_spec (Z.of_nat j) bound) as [Hlt|Hge]; cbn [negb].
    + unfold go_len. replace (go_inb (Z.of_nat (length mem) - 0) (Z.of_nat j)) with true by (unfold go_inb; lia).
      cbn [negb]. rewrite go_at_nat by lia. replace (Z.to_nat (0 + Z.of_nat j)) with j by lia.
      replace (Z.of_nat j + 1)%Z with (Z.of_nat (S j)) by lia.
      rewrite (IH (S j) _ bound Hb) by lia. f_equal. f_equal.
      replace (Z.to_nat bound - j)%nat with (S (Z.to_nat bound - S j)) by lia.
      rewrite (skipn_cons_nth mem j 0%N) by lia. cbn [firstn]. unfold nsum. cbn [map sum_nat]. lia.
    + replace (Z.to_nat bound - j)%nat with 0%nat by lia. cbn. f_equal. f_equal. lia.
Qed.

(* loop 2 (outer): the maximum over all windows *)
Lemma loop2_spec hops mem : let n := length hops in
  length mem = (2 * n - 1)%nat -> (1 <= n)%nat ->
  forall fuel i size, (i <= n + 1)%nat -> (n + 1 - i <= fuel)%nat ->
  go_SwitchPath_CalculateBlockSize_loop2 fuel (Z.of_nat i) mem hops (Z.of_nat size) =
    Some (Z.of_nat (Nat.max size (max_list (map (fun k => nsum (firstn (n - 1) (skipn k mem))) (seq i (n + 1 - i))))), mem).
Proof.
  intros n Hlen Hn. induction fuel as [|fuel IH]; intros i size Hi Hf.
  - cbn [go_SwitchPath_CalculateBlockSize_loop2]. replace (n + 1 - i)%nat with 0%nat by lia.
    cbn [seq map max_list]. rewrite Nat.max_0_r. reflexivity.
  - cbn [go_SwitchPath_CalculateBlockSize_loop2]. fold n.
    destruct (Nat.eq_dec i (n + 1)) as [He|Hne].
    + subst i. replace (Z.of_nat (n + 1) <=? Z.of_nat n)%Z with false by lia. cbn [negb].
      replace (n + 1 - (n + 1))%nat with 0%nat by lia. cbn [seq map max_list]. rewrite Nat.max_0_r. reflexivity.
    + replace (Z.of_nat i <=? Z.of_nat n)%Z with true by lia. cbn [negb].
      change 0%Z with (Z.of_nat 0) at 1.
      rewrite (loop3_spec hops (Z.of_nat size) (Z.of_nat i) mem _ i 0%Z (Z.of_nat i + Z.of_nat n - 1)%Z);
        [|fold n; lia|lia|lia|rewrite Hlen; lia].
      replace (Z.to_nat (Z.of_nat i + Z.of_nat n - 1) - i)%nat with (n - 1)%nat by lia.
      replace (n + 1 - i)%nat with (S (n + 1 - S i)) by lia. cbn [seq map max_list].
      set (w := nsum (firstn (n - 1) (skipn i mem))).
      replace (Z.of_nat i + 1)%Z with (Z.of_nat (S i)) by lia.
      destruct (Z.ltb_spec (Z.of_nat size) (0 + Z.of_nat w)) as [Hlt|Hge].
      * replace (0 + Z.of_nat w)%Z with (Z.of_nat w) by lia.
        rewrite IH by lia. f_equal. f_equal. lia.
      * rewrite IH by lia. f_equal. f_equal. lia.
Qed.

Lemma last_nth {A} (l : list A) d : last l d = nth (length l - 1) l d.
Proof.
  induction l as [|a l IH]; [reflexivity|]. destruct l as [|b l]; [reflexivity|].
  change (last (a :: b :: l) d) with (last (b :: l) d). rewrite IH. cbn [length].
  replace (S (S (length l)) - 1)%nat with (S (S (length l) - 1)) by lia. reflexivity.
Qed.

Lemma size_sim_nth hops idx : let n := length hops in (1 <= n)%nat -> (idx < 2 * n - 1)%nat ->
  nth idx (size_sim hops) 0%nat =
    if Nat.ltb idx (n - 1) then esize (fst (nth idx hops (0, 0))) else esize (snd (nth (idx - (n - 1)) hops (0, 0))).
Proof.
  intros n Hn Hidx. unfold size_sim. fold n.
  assert (Hl1 : length (map (fun h : N * N => esize (fst h)) (firstn (n - 1) hops)) = (n - 1)%nat)
    by (rewrite map_length, firstn_length; fold n; lia).
  destruct (Nat.ltb_spec idx (n - 1)) as [Hlt|Hge].
  - rewrite app_nth1 by lia.
    rewrite (nth_indep _ 0%nat (esize (fst (0, 0)))) by lia.
    rewrite (map_nth (fun h : N * N => esize (fst h))). rewrite nth_firstn_lt' by lia. reflexivity.
  - rewrite app_nth2 by lia. rewrite Hl1.
    rewrite (nth_indep _ 0%nat (esize (snd (0, 0)))) by (rewrite map_length; fold n; lia).
    rewrite (map_nth (fun h : N * N => esize (snd h))). reflexivity.
Qed.

Definition ires_size (r : ires) : res nat :=
  match r with
  | IOk [v] _ => Ok (Z.to_nat v)
  | IOk _ _ => Panic
  | IErr _ => Err 0
  | IPanic => Panic
  end.

Theorem go_calc_size_is_model : forall hops,
  go_SwitchPath_CalculateBlockSize_translated = true ->
  ires_size (go_SwitchPath_CalculateBlockSize hops) = forget_code (calc_size hops).
Proof.
  intros hops _. unfold go_SwitchPath_CalculateBlockSize, calc_size.
  destruct hops as [|h0 rest] eqn:Hh; [reflexivity|]. rewrite <- Hh.
  set (n := length hops).
  assert (Hn : (1 <= n)%nat) by (unfold n; rewrite Hh; cbn [length]; lia).
  replace (Z.of_nat n =? 0)%Z with false by lia.
  replace (go_inb (Z.of_nat n) 0) with true by (unfold go_inb; lia). cbn [negb].
  change (Z.to_nat 0) with 0%nat.
  assert (H0 : nth 0 hops (0, 0) = h0) by (rewrite Hh; reflexivity). rewrite H0.
  rewrite last_nth. fold n.
  destruct (N.eqb_spec (snd h0) 0) as [Hr0|Hr0]; cbn [andb negb].
  2:{ replace (Z.of_N (snd h0) =? 0)%Z with false by lia. reflexivity. }
  replace (Z.of_N (snd h0) =? 0)%Z with true by lia. cbn [negb].
  replace (go_inb (Z.of_nat n) (Z.of_nat n - 1)) with true by (unfold go_inb; lia). cbn [negb].
  replace (Z.to_nat (Z.of_nat n - 1)) with (n - 1)%nat by lia.
  destruct (N.eqb_spec (fst (nth (n - 1) hops (0, 0))) 0) as [Hf0|Hf0]; cbn [negb].
  2:{ replace (Z.of_N (fst (nth (n - 1) hops (0%N, 0%N))) =? 0)%Z with false by lia. reflexivity. }
  replace (Z.of_N (fst (nth (n - 1) hops (0%N, 0%N))) =? 0)%Z with true by lia. cbn [negb].
  replace (Z.of_nat n * 2 - 1 <? 0)%Z with false by lia.
  replace (Z.to_nat (Z.of_nat n * 2 - 1)) with (2 * n - 1)%nat by lia.
  assert (Hc : eF hops (n - 1) = eR hops 0).
  { unfold eF, eR. rewrite H0, Hr0, Hf0. reflexivity. }
  destruct (loop1_spec hops 0%Z Hc n 0 (repeat 0 (2 * n - 1)) ltac:(apply repeat_length) ltac:(lia) ltac:(lia) Hn)
    as (sim & Hrun & Hlsim & Hnth).
  replace (Z.to_nat (Z.of_nat n - 0)) with n by lia.
  change (Z.of_nat 0) with 0%Z in Hrun. rewrite Hrun.
  replace (Z.to_nat (Z.of_nat n - 0 + 1)) with (n + 1)%nat by lia.
  pose proof (loop2_spec hops sim Hlsim Hn (n + 1) 0 0 ltac:(lia) ltac:(lia)) as H2.
  change (Z.of_nat 0) with 0%Z in H2. rewrite H2. clear H2.
  rewrite Nat.max_0_l. replace (n + 1 - 0)%nat with (n + 1)%nat by lia.
  (* the size simulation is the model's *)
  assert (Hsim : map N.to_nat sim = size_sim hops).
  { apply (nth_ext _ _ 0%nat 0%nat).
    - rewrite map_length, Hlsim. unfold size_sim. rewrite app_length, !map_length, firstn_length. fold n. lia.
    - intros idx Hidx. rewrite map_length, Hlsim in Hidx.
      change 0%nat with (N.to_nat 0) at 1. rewrite map_nth. rewrite Hnth.
      rewrite size_sim_nth by (fold n; lia). fold n. cbn [Nat.leb andb].
      rewrite nth_repeat. unfold eF, eR.
      destruct (Nat.ltb_spec idx n) as [Hlt|Hge].
      + destruct (Nat.ltb_spec idx (n - 1)) as [Hl2|Hg2]; [rewrite Nat2N.id; reflexivity|].
        assert (idx = (n - 1)%nat) by lia. subst idx.
        replace (n - 1 - (n - 1))%nat with 0%nat by lia.
        unfold eF, eR in Hc. rewrite Hc. rewrite Nat2N.id. reflexivity.
      + replace (Nat.leb (n - 1 + 0) idx && Nat.ltb idx (2 * n - 1)) with true by lia.
        replace (Nat.ltb idx (n - 1)) with false by lia. rewrite Nat2N.id. reflexivity. }
  assert (Hw : forall k, nsum (firstn (n - 1) (skipn k sim)) = window (size_sim hops) (n - 1) k).
  { intros k. unfold nsum, window. rewrite <- Hsim. rewrite <- firstn_map, <- skipn_map. reflexivity. }
  rewrite (map_ext _ _ Hw). fold n. replace (n + 1 - 0)%nat with (n + 1)%nat by lia.
  set (s := max_list (map (window (size_sim hops) (n - 1)) (seq 0 (n + 1)))).
  destruct (Nat.ltb_spec 255 s) as [Hbig|Hok].
  - replace (255 <? Z.of_nat s)%Z with true by lia. reflexivity.
  - replace (255 <? Z.of_nat s)%Z with false by lia. cbn [ires_size forget_code]. rewrite Nat2Z.id. reflexivity.
Qed.
