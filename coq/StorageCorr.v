(* StorageCorr.v — correspondence for C18 (no proofs): a history of saves (each killed at a byte
   offset, or completing) on a real directory; observed: content of the state file and of the
   temporary file after each step. *)
From Verif Require Import Prelude SeqCorr Storage.

Definition obytes_eqb (a b : option (list N)) : bool :=
  match a, b with
  | None, None => true
  | Some x, Some y => bytes_eqb x y
  | _, _ => false
  end.

(* trunc flag as in the code (Gen), initial fs, steps: (data, cut, observed state file, observed tmp file) *)
Definition c18_case := (bool * fs * list (list N * cut * option (list N) * option (list N)))%type.
Fixpoint c18_run (trunc : bool) (s : fs) (l : list (list N * cut * option (list N) * option (list N))) : bool :=
  match l with
  | [] => true
  | (d, c, os, ot) :: t =>
    let s' := save trunc s d c in
    obytes_eqb (f_state s') os && obytes_eqb (f_tmp s') ot && c18_run trunc s' t
  end.
Definition c18_ok (c : c18_case) : bool := let '(tr, s, l) := c in c18_run tr s l.
