(* TranslatedDec.v — the decoders of the frame format as translated from the Go source
   (harness/gen_translate_dec.go -> Gen.go_Builder_ParseFrame, Gen.go_Builder_ParseFrameV1, the
   FrameV1 / LinkFrame sub-slice accessors) are the hand-written model (Frame.parse, Frame.parse_v1
   and the ranges of Frame.v / LinkFrame.v), for every byte string; and no index or slice
   expression of these functions is ever out of bounds (no DPanic). *)
From Verif Require Import Prelude Gen Frame FrameProofs Translated MalformedProofs.
From Coq Require Import ZifyBool ZifyNat ZifyN.

Definition bytes_ok (d : list N) : Prop := Forall (fun b => b < 256) d.

(* what a translated decoder result says in the model's vocabulary: error sites are not
   distinguished (the model numbers them itself) *)
Definition dres_idx (r : dres) : res idx :=
  match r with
  | DOk [m; a; x] => Ok (mkIdx (Z.to_nat m) (Z.to_nat a) (Z.to_nat x))
  | DOk _ => Panic
  | DErr _ => Err 0
  | DPanic => Panic
  end.
Definition forget_code {A} (r : res A) : res A := match r with Err _ => Err 0 | x => x end.

Lemma nth_lt_256 d i : bytes_ok d -> nth i d 0 < 256.
Proof.
  intros H. destruct (Nat.lt_ge_cases i (length d)) as [Hi|Hi].
  - unfold bytes_ok in H. rewrite Forall_forall in H. apply H. apply nth_In. exact Hi.
  - rewrite nth_overflow by exact Hi. lia.
Qed.

Lemma go_be_two d a : (0 <= a)%Z ->
  go_be d a (a + 2) = (Z.of_N (nth (Z.to_nat a) d 0%N) * 256 + Z.of_N (nth (S (Z.to_nat a)) d 0%N))%Z.
Proof.
  intros Ha. unfold go_be. replace (Z.to_nat (a + 2 - a)) with 2%nat by lia.
  cbn [go_be_nat]. lia.
Qed.

Theorem go_parse_v1_is_model : forall d, bytes_ok d ->
  go_Builder_ParseFrameV1_translated = true ->
  dres_idx (go_Builder_ParseFrameV1 d) = forget_code (parse_v1 d).
Proof.
  intros d Hb _. unfold go_Builder_ParseFrameV1, parse_v1.
  unfold go_len, go_at, byte_at, Gen.frame_frameV1MinSize.
  change (Z.to_nat 48) with 48%nat. change (Z.to_nat 4) with 4%nat.
  pose proof (nth_lt_256 d 48 Hb) as H48. set (b48 := nth 48 d 0) in *.
  set (m := (49 + N.to_nat b48)%nat).
  pose proof (nth_lt_256 d m Hb) as Hm0. pose proof (nth_lt_256 d (S m) Hb) as Hm1.
  pose proof (nth_lt_256 d 4 Hb) as H4.
  set (b0 := nth m d 0) in *. set (b1 := nth (S m) d 0) in *. set (ty := nth 4 d 0) in *.
  clear Hb.
  destruct (Z.of_nat (length d) <? 68)%Z eqn:Hmin.
  { replace (N.of_nat (length d) <? 68) with true by lia. reflexivity. }
  replace (N.of_nat (length d) <? 68) with false by lia.
  replace (go_inb (Z.of_nat (length d)) 48) with true by (unfold go_inb; lia). cbn [negb].
  replace (49 + Z.of_N b48)%Z with (Z.of_nat m) by (unfold m; lia).
  destruct (Z.of_nat (length d) <? Z.of_nat m + 19)%Z eqn:Hm.
  { replace (Nat.ltb (length d) (m + 19)) with true by lia. reflexivity. }
  replace (Nat.ltb (length d) (m + 19)) with false by lia.
  replace (go_inr (Z.of_nat (length d)) (Z.of_nat m) (Z.of_nat m + 2)) with true by (unfold go_inr; lia).
  cbn [negb]. rewrite go_be_two by lia. rewrite Nat2Z.id.
  replace (m + 1)%nat with (S m) by lia.
  fold b0 b1.
  replace (go_inb (Z.of_nat (length d)) 4) with true by (unfold go_inb; lia). cbn [negb].
  rewrite N2Z.id.
  destruct (go_message_type_tables ty H4) as [_ [_ Henc]]. rewrite Henc.
  unfold auth_size, mac_size, sig_size, Gen.frame_frameV1MACSize, Gen.frame_frameV1SigSize.
  destruct (Gen.is_enc ty).
  - change (N.to_nat 16) with 16%nat.
    destruct (Z.of_nat (length d) <? Z.of_nat m + 2 + (Z.of_N b0 * 256 + Z.of_N b1) + 16)%Z eqn:Hx.
    + replace (Nat.ltb (length d) (m + 2 + N.to_nat (b0 * 256 + b1) + 16)) with true by lia. reflexivity.
    + replace (Nat.ltb (length d) (m + 2 + N.to_nat (b0 * 256 + b1) + 16)) with false by lia.
      cbn [dres_idx forget_code]. f_equal. f_equal; lia.
  - change (N.to_nat 64) with 64%nat.
    destruct (Z.of_nat (length d) <? Z.of_nat m + 2 + (Z.of_N b0 * 256 + Z.of_N b1) + 64)%Z eqn:Hx.
    + replace (Nat.ltb (length d) (m + 2 + N.to_nat (b0 * 256 + b1) + 64)) with true by lia. reflexivity.
    + replace (Nat.ltb (length d) (m + 2 + N.to_nat (b0 * 256 + b1) + 64)) with false by lia.
      cbn [dres_idx forget_code]. f_equal. f_equal; lia.
Qed.

Theorem go_parse_is_model : forall d, bytes_ok d ->
  go_Builder_ParseFrame_translated = true -> go_Builder_ParseFrameV1_translated = true ->
  dres_idx (go_Builder_ParseFrame d) = forget_code (parse d).
Proof.
  intros d Hb _ Ht. unfold go_Builder_ParseFrame, parse. unfold go_len.
  destruct d as [|v r].
  - reflexivity.
  - replace (Z.of_nat (length (v :: r)) <? 1)%Z with false by (cbn [length]; lia).
    replace (go_inb (Z.of_nat (length (v :: r))) 0) with true by (unfold go_inb; cbn [length]; lia).
    cbn [negb]. unfold go_at. change (Z.to_nat 0) with 0%nat. cbn [nth].
    destruct (v =? 1) eqn:Hv.
    + replace (Z.of_N v =? 1)%Z with true by lia. apply go_parse_v1_is_model; assumption.
    + replace (Z.of_N v =? 1)%Z with false by lia. reflexivity.
Qed.

(* the translated decoder never evaluates an index or slice expression out of bounds *)
Corollary go_parse_no_panic : forall d, bytes_ok d ->
  go_Builder_ParseFrame_translated = true -> go_Builder_ParseFrameV1_translated = true ->
  go_Builder_ParseFrame d <> DPanic.
Proof.
  intros d Hb H1 H2 Hp. pose proof (go_parse_is_model d Hb H1 H2) as H. rewrite Hp in H.
  cbn [dres_idx] in H. pose proof (parse_no_panic d) as Hn. destruct (parse d); cbn in H; congruence.
Qed.

(* ---------- the sub-slice accessors on a parsed frame ---------- *)
(* For every frame that parses, each accessor's slice expression is within the frame and is the
   range the model's accessor takes. *)
Definition zrange (d : list N) (r : dres) : option (list N) :=
  match r with
  | DOk [lo; hi] => Some (range d (Z.to_nat lo) (Z.to_nat hi))
  | _ => None
  end.

Theorem go_accessors_are_model : forall d ix, parse d = Ok ix ->
  let L := Z.of_nat (length d) in
  let M := Z.of_nat (mi ix) in let A := Z.of_nat (ai ix) in let X := Z.of_nat (xi ix) in
  zrange d (go_FrameV1_SwitchBlock L M) = Some (switch_block d ix) /\
  zrange d (go_FrameV1_MessageData L M A) = Some (msg_part d ix) /\
  zrange d (go_FrameV1_MessageDataWithAuth L M X) = Some (ct_part d ix) /\
  zrange d (go_FrameV1_AuthData L A X) = Some (auth_part d ix) /\
  zrange d (go_FrameV1_AppendixData L X) = Some (apx_part d ix).
Proof.
  intros d ix Hp L M A X.
  destruct (parse_accessors_in_range d ix Hp) as (H1 & H2 & H3 & H4).
  unfold go_FrameV1_SwitchBlock, go_FrameV1_MessageData, go_FrameV1_MessageDataWithAuth,
    go_FrameV1_AuthData, go_FrameV1_AppendixData, go_inr, L, M, A, X.
  repeat split.
  - replace ((0 <=? 49)%Z && (49 <=? Z.of_nat (mi ix))%Z && (Z.of_nat (mi ix) <=? Z.of_nat (length d))%Z) with true by lia.
    cbn [negb zrange]. unfold switch_block. rewrite Nat2Z.id. reflexivity.
  - replace ((0 <=? Z.of_nat (mi ix) + 2)%Z && (Z.of_nat (mi ix) + 2 <=? Z.of_nat (ai ix))%Z && (Z.of_nat (ai ix) <=? Z.of_nat (length d))%Z) with true by lia.
    cbn [negb zrange]. unfold msg_part. rewrite Nat2Z.id. f_equal. f_equal. lia.
  - replace ((0 <=? Z.of_nat (mi ix) + 2)%Z && (Z.of_nat (mi ix) + 2 <=? Z.of_nat (xi ix))%Z && (Z.of_nat (xi ix) <=? Z.of_nat (length d))%Z) with true by lia.
    cbn [negb zrange]. unfold ct_part. rewrite Nat2Z.id. f_equal. f_equal. lia.
  - replace ((0 <=? Z.of_nat (ai ix))%Z && (Z.of_nat (ai ix) <=? Z.of_nat (xi ix))%Z && (Z.of_nat (xi ix) <=? Z.of_nat (length d))%Z) with true by lia.
    cbn [negb zrange]. unfold auth_part. rewrite !Nat2Z.id. reflexivity.
  - replace ((0 <=? Z.of_nat (xi ix))%Z && (Z.of_nat (xi ix) <=? Z.of_nat (length d))%Z && (Z.of_nat (length d) <=? Z.of_nat (length d))%Z) with true by lia.
    cbn [negb zrange]. unfold apx_part, range. rewrite !Nat2Z.id.
    rewrite firstn_all2; [reflexivity|]. rewrite skipn_length. lia.
Qed.

Definition decoders_translated : bool :=
  go_Builder_ParseFrame_translated && go_Builder_ParseFrameV1_translated &&
  go_FrameV1_SwitchBlock_translated && go_FrameV1_MessageData_translated &&
  go_FrameV1_MessageDataWithAuth_translated && go_FrameV1_AuthData_translated &&
  go_FrameV1_AppendixData_translated &&
  go_LinkFrame_LinkData_translated && go_LinkFrame_LinkDataWithAuth_translated && go_LinkFrame_Nonce_translated.

Lemma decoders_all_translated : decoders_translated = true.
Proof. reflexivity. Qed.

(* link frames: the three slice expressions of a link frame that passed Unseal's size check
   (at least header + MAC = 28 bytes) are within the frame: header as nonce, payload, payload+MAC *)
Theorem go_link_ranges : forall len, (28 <= len)%Z ->
  go_LinkFrame_Nonce len = DOk [0; 12]%Z /\
  go_LinkFrame_LinkData len = DOk [12; len - 16]%Z /\
  go_LinkFrame_LinkDataWithAuth len = DOk [12; len]%Z.
Proof.
  intros len H. unfold go_LinkFrame_Nonce, go_LinkFrame_LinkData, go_LinkFrame_LinkDataWithAuth, go_inr.
  repeat split.
  - replace ((0 <=? 0)%Z && (0 <=? 12)%Z && (12 <=? len)%Z) with true by lia. reflexivity.
  - replace ((0 <=? 12)%Z && (12 <=? len - 16)%Z && (len - 16 <=? len)%Z) with true by lia. reflexivity.
  - replace ((0 <=? 12)%Z && (12 <=? len)%Z && (len <=? len)%Z) with true by lia. reflexivity.
Qed.

(* ---------- margins: the frame with room before and after it in its pooled slice ---------- *)
(* FrameDataWithMargins(offset, overhead) on a frame of [len] bytes that starts at [psoff] in a
   pooled slice of [lps] bytes: granted exactly when the requested room exists — an exact fit
   included — and then it is the slice [psoff-offset, psoff+len+overhead); no request with
   non-negative margins evaluates a slice expression out of bounds. *)
Theorem go_margins_spec : forall len lps psoff offset overhead,
  (0 <= len)%Z -> (0 <= psoff)%Z -> (0 <= offset)%Z -> (0 <= overhead)%Z ->
  go_FrameV1_FrameDataWithMargins len lps psoff offset overhead =
    if ((offset <=? psoff)%Z && (psoff + len + overhead <=? lps)%Z)
    then DOk [psoff - offset; psoff + len + overhead]%Z
    else if (offset <=? psoff)%Z then DErr 2 else DErr 1.
Proof.
  intros len lps psoff offset overhead H1 H2 H3 H4. unfold go_FrameV1_FrameDataWithMargins, go_inr.
  destruct (psoff - offset <? 0)%Z eqn:Hs.
  - replace (offset <=? psoff)%Z with false by lia. reflexivity.
  - replace (offset <=? psoff)%Z with true by lia. cbn [andb].
    destruct (lps <? psoff + len + overhead)%Z eqn:He.
    + replace (psoff + len + overhead <=? lps)%Z with false by lia. reflexivity.
    + replace (psoff + len + overhead <=? lps)%Z with true by lia.
      replace ((0 <=? psoff - offset)%Z && (psoff - offset <=? psoff + len + overhead)%Z) with true by lia.
      reflexivity.
Qed.

(* MessageDataWithOffset(offset) on a parsed frame: the message with [offset] bytes of room in
   front of it, refused when the room is not there, never out of bounds *)
Theorem go_message_with_offset_spec : forall d ix offset, parse d = Ok ix -> (0 <= offset)%Z ->
  go_FrameV1_MessageDataWithOffset (Z.of_nat (length d)) (Z.of_nat (mi ix)) (Z.of_nat (ai ix)) offset =
    if (offset <=? Z.of_nat (mi ix) + 2)%Z then DOk [Z.of_nat (mi ix) + 2 - offset; Z.of_nat (ai ix)]%Z else DErr 1.
Proof.
  intros d ix offset Hp Ho. destruct (parse_accessors_in_range d ix Hp) as (H1 & H2 & H3 & H4).
  unfold go_FrameV1_MessageDataWithOffset, go_inr.
  destruct (Z.of_nat (mi ix) + 2 - offset <? 0)%Z eqn:Hs.
  - replace (offset <=? Z.of_nat (mi ix) + 2)%Z with false by lia. reflexivity.
  - replace (offset <=? Z.of_nat (mi ix) + 2)%Z with true by lia.
    replace ((0 <=? Z.of_nat (mi ix) + 2 - offset)%Z && (Z.of_nat (mi ix) + 2 - offset <=? Z.of_nat (ai ix))%Z && (Z.of_nat (ai ix) <=? Z.of_nat (length d))%Z) with true by lia.
    reflexivity.
Qed.

Lemma margins_translated : go_FrameV1_FrameDataWithMargins_translated && go_FrameV1_MessageDataWithOffset_translated = true.
Proof. reflexivity. Qed.

(* ---------- parsePingHeader (router/ping.go) ---------- *)
(* The two library verdicts the function depends on (cbor.Unmarshal of the header bytes, the
   ping-type pattern) are oracle parameters; the model's hdr_ok is their conjunction.  For every
   message the translated function splits it where the model does, or refuses it where the model
   does, and evaluates no index or slice expression out of bounds. *)
From Verif Require Import Malformed.
Definition dres_ping (len : nat) (r : dres) : res (nat * nat) :=
  match r with
  | DOk [off] => Ok ((Z.to_nat off - 2)%nat, (len - Z.to_nat off)%nat)
  | DOk _ => Panic
  | DErr _ => Err 0
  | DPanic => Panic
  end.

Theorem go_ping_header_is_model : forall d o1 o2, bytes_ok d ->
  go_parsePingHeader_translated = true ->
  dres_ping (length d) (go_parsePingHeader d o1 o2) = forget_code (ping_split (length d) (nth 1 d 0) (o1 && o2)).
Proof.
  intros d o1 o2 Hb _. unfold go_parsePingHeader, ping_split, gindex, gslice, go_len, go_at.
  change (Z.to_nat 1) with 1%nat.
  pose proof (nth_lt_256 d 1 Hb) as H1. set (b1 := nth 1 d 0) in *. clear Hb.
  destruct (Z.of_nat (length d) <? 3)%Z eqn:H3.
  { replace (Nat.ltb (length d) 3) with true by lia. reflexivity. }
  replace (Nat.ltb (length d) 3) with false by lia.
  replace (go_inb (Z.of_nat (length d)) 1) with true by (unfold go_inb; lia). cbn [negb].
  replace (Nat.ltb 1 (length d)) with true by lia.
  destruct (Z.of_nat (length d) <? 2 + Z.of_N b1)%Z eqn:Hh.
  { replace (Nat.ltb (length d) (2 + N.to_nat b1)) with true by lia. reflexivity. }
  replace (Nat.ltb (length d) (2 + N.to_nat b1)) with false by lia.
  replace (go_inr (Z.of_nat (length d)) 2 (Z.of_N b1 + 2)) with true by (unfold go_inr; lia). cbn [negb].
  replace (Nat.leb 2 (N.to_nat b1 + 2) && Nat.leb (N.to_nat b1 + 2) (length d)) with true by lia.
  destruct o1; cbn [negb andb]; [|reflexivity].
  destruct o2; cbn [negb]; [|reflexivity].
  replace (Nat.leb (N.to_nat b1 + 2) (length d) && Nat.leb (length d) (length d)) with true by lia.
  cbn [dres_ping forget_code]. f_equal. f_equal; lia.
Qed.
