(* Group.v — start/stop of a group of modules (mgr/module.go: Group.Start, Group.Stop,
   stopFrom).  A module's behaviour is given by three booleans: Start succeeds, Stop succeeds,
   its workers exit after its context is cancelled (WaitForWorkers).  The observable is the
   trace of Start/Stop calls and the returned status. *)
From Verif Require Import Prelude.

Record mb := mkMb { start_ok : bool; stop_ok : bool; workers_exit : bool }.
Inductive call := CStart (i : nat) | CStop (i : nat).

(* stopFrom(index): Stop, Cancel, WaitForWorkers for index, index-1, .., 0 *)
Fixpoint stop_from (mods : list mb) (n : nat) : list call * bool :=
  match n with
  | O => ([], true)
  | S i =>
    let m := nth i mods (mkMb true true true) in
    let '(t, ok) := stop_from mods i in
    (CStop i :: t, stop_ok m && workers_exit m && ok)
  end.

(* Start: modules in order; the first failure stops that module and all before it, in reverse *)
Fixpoint start_from (mods : list mb) (rest : list mb) (i : nat) : list call * bool :=
  match rest with
  | [] => ([], true)
  | m :: t =>
    if start_ok m then let '(tr, ok) := start_from mods t (S i) in (CStart i :: tr, ok)
    else (CStart i :: fst (stop_from mods (S i)), false)
  end.
Definition g_start (mods : list mb) : list call * bool := start_from mods mods 0.
Definition g_stop (mods : list mb) : list call * bool := stop_from mods (length mods).

(* the modules that are up after a trace *)
Fixpoint running (t : list call) (up : list nat) : list nat :=
  match t with
  | [] => up
  | CStart i :: r => running r (i :: up)
  | CStop i :: r => running r (filter (fun x => negb (Nat.eqb x i)) up)
  end.
