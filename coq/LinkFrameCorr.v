(* LinkFrameCorr.v — correspondence for C05 (no proofs). *)
From Verif Require Import Prelude Seq SeqCorr LinkFrame.

(* issued link frames (as captured from the sender before the wire adversary), the bytes that
   reached the receiver, observed: delivered inner frames in order, link closed *)
Definition c05_case := (list (list N * list N) * list N * (list (list N) * bool))%type.
Definition closed_of (evs : list event) : bool := existsb (fun e => match e with Closed => true | _ => false end) evs.
Definition c05_ok (c : c05_case) : bool :=
  let '(issued, wire, (dl, closed)) := c in
  let evs := read_stream issued sh_init 0 wire (S (length wire)) in
  list_eqb bytes_eqb (delivered_of evs) dl && Bool.eqb (closed_of evs) closed.

(* LinkFrame.Unseal on raw chunks with a keyed session (no issued frames): code 1 error / 3 panic *)
Definition c05_ucase := (list N * N)%type.
Definition c05_uok (c : c05_ucase) : bool :=
  let '(chunk, code) := c in
  match snd (lf_unseal [] sh_init chunk) with Ok _ => code =? 0 | Err _ => code =? 1 | Panic => code =? 3 end.
