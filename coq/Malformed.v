(* Malformed.v — the places where bytes from the network are sliced or indexed after
   authentication, with Go's slice semantics made explicit: an out-of-range slice or index is a
   Panic (router/ping.go: parsePingHeader, parsePingMsg; router/ping_announce.go:
   parseAnnouncePing's layer loop; router/traffic.go: handleIncomingTraffic's packet metadata).
   Decoding (CBOR) and verification results are inputs; only lengths decide whether a slice
   expression is in range, so the models work on lengths.
   (Frame parsing: Frame.v; link frames: LinkFrame.v; switch blocks: SwitchLabel.v; identities:
   Address.v; DNS: Dns.v — each has its own no-panic theorem, collected in Properties/C13.v.) *)
From Verif Require Import Prelude.

(* s[lo:hi] on a slice of length len (capacity = length for message data) *)
Definition gslice (len lo hi : nat) : res nat :=
  if Nat.leb lo hi && Nat.leb hi len then Ok (hi - lo)%nat else Panic.
(* s[i] *)
Definition gindex (len i : nat) : res unit := if Nat.ltb i len then Ok tt else Panic.

(* ---------- parsePingHeader + parsePingMsg ---------- *)
(* input: message length, byte 1 of the message (header length), whether the header decodes and
   has a well-formed ping type; output: (header length, body length) *)
Definition ping_split (len : nat) (b1 : N) (hdr_ok : bool) : res (nat * nat) :=
  if Nat.ltb len 3 then Err 1
  else match gindex len 1 with
       | Ok _ =>
         let hl := N.to_nat b1 in
         if Nat.ltb len (2 + hl) then Err 1
         else match gslice len 2 (hl + 2) with
              | Ok hdr_len =>
                if negb hdr_ok then Err 2
                else match gslice len (hl + 2) len with          (* f.MessageData()[dataOffset:] *)
                     | Ok body_len => Ok (hdr_len, body_len)
                     | Err c => Err c | Panic => Panic
                     end
              | Err c => Err c | Panic => Panic
              end
       | Err c => Err c | Panic => Panic
       end.

(* ---------- parseAnnouncePing: the hop-record layer loop ---------- *)
Record linfo := mkL {
  l_dec : bool;        (* the layer's body decodes *)
  l_self : bool;       (* names this router (looping) *)
  l_sess : bool;       (* signer known, or attached identity valid and stored *)
  l_sig : bool;        (* signature verifies *)
  l_next : nat         (* length of the nested attachment *)
}.

(* [len] = length of the remaining appendix; [i] = layer number (from 1); returns the number of
   hop records; Err 10 = looping (ignored by the handler) *)
Fixpoint ann_loop (infos : list linfo) (len : nat) (i : nat) (fuel : nat) {struct fuel} : res nat :=
  match fuel with
  | O => Err 9
  | S k =>
    if Nat.eqb len 0 then Ok O
    else if Nat.eqb i 100 then Err 1
    else if Nat.ltb len 65 then Err 2
    else match gslice len 0 (len - 64) with                       (* apx[:len(apx)-64] *)
         | Ok _ =>
           match infos with
           | [] => Err 3                                           (* (no information: treated as undecodable) *)
           | x :: rest =>
             if negb (l_dec x) then Err 3
             else if l_self x then Err 10
             else if negb (l_sess x) then Err 4
             else match gslice len (len - 64) len with             (* apx[sigStart:] *)
                  | Ok _ =>
                    if negb (l_sig x) then Err 5
                    else match ann_loop rest (l_next x) (S i) k with
                         | Ok n => Ok (S n)
                         | r => r
                         end
                  | Err c => Err c | Panic => Panic
                  end
           end
         | Err c => Err c | Panic => Panic
         end
  end.
Definition ann_layers (infos : list linfo) (len : nat) : res nat := ann_loop infos len 1 101.

(* ---------- handleIncomingTraffic: packet metadata ---------- *)
(* input: packet length and the protocol byte; output: whether ports were read *)
Definition traffic_meta (len : nat) (proto : N) : res bool :=
  if Nat.ltb len 44 then Err 1
  else match gslice len 8 24, gslice len 24 40, gindex len 6 with
       | Ok _, Ok _, Ok _ =>
         if (proto =? 6) || (proto =? 17)
         then match gslice len 40 42, gslice len 42 44 with
              | Ok _, Ok _ => Ok true
              | _, _ => Panic
              end
         else Ok false
       | _, _, _ => Panic
       end.
