(* Regression.v — refutations of the property theorems for the functions as they stood on the
   pinned tree (8498d9a), kept after the fix: commits as standing non-vacuity tests of the
   statements (a statement that the defective code also satisfied would decide nothing). *)
From Verif Require Import Prelude Seq.

(* D2: the pinned SequenceHandler.Check accepts sequence number 2 twice in 1,2,3,2. *)
Theorem at_most_once_pinned_refuted : exists l, ~ NoDup (accepted check_pinned sh_init l).
Proof.
  exists [1;2;3;2]. vm_compute. intros H.
  inversion H as [|x l Hnin Hnd]; subst.
  inversion Hnd as [|x' l' Hnin' Hnd']; subst.
  apply Hnin'. right. left. reflexivity.
Qed.
Print Assumptions at_most_once_pinned_refuted.

(* D5: CalculateBlockSize summed in uint8 on the pinned tree; 101 hops of 3-byte labels wrap
   to 44 and BuildBlocks indexes out of range (Panic) instead of refusing the path. *)
From Verif Require Import SwitchLabel.
Theorem build_blocks_pinned_refuted :
  exists hops, Forall (fun h => fst h < 65536 /\ snd h < 65536) hops /\ build_blocks_pinned hops = Panic.
Proof.
  exists (mk_hops (repeat 20000 100) (repeat 20000 100)). split.
  - apply Forall_forall. intros h Hin.
    assert (Hb : forallb (fun h => (fst h <? 65536) && (snd h <? 65536)) (mk_hops (repeat 20000 100) (repeat 20000 100)) = true)
      by (vm_compute; reflexivity).
    rewrite forallb_forall in Hb. specialize (Hb h Hin). apply andb_true_iff in Hb as [H1 H2].
    apply N.ltb_lt in H1, H2. split; assumption.
  - vm_compute. reflexivity.
Qed.
Print Assumptions build_blocks_pinned_refuted.

(* D6: Clean on the pinned tree took the per-prefix limit from the prefix base address and its
   bucket comparator ignored the prefix length: with the routable prefixes of a router in
   fd1f::/18 (own prefix limit 1024, region buckets /16 limit 2 here) three gossip routes in the
   region bucket fd1f::/16 all survive a cleanup, although the limit of their prefix is 2;
   the repaired clean keeps 2. *)
From Verif Require Import Table.
Definition d6_cfg : list rprefix :=
  [ mkRp (N.shiftl 64799 112) 18 18 0%Z 1024;     (* fd1f::/18  own country *)
    mkRp (N.shiftl 64784 112) 12 16 0%Z 2 ].      (* fd10::/12  regions /16, limit 2 *)
Definition d6_entry (k : N) : entry :=
  mkEntry (N.shiftl 64799 112 + N.shiftl 61440 96 + k) (N.shiftl 64799 112) 16 7
          [mkHop 1 5 1 0; mkHop 7 5 1 1; mkHop 9 0 0 1] false src_gossip 9999999%Z 2 (10 + k).
Theorem clean_pinned_refuted :
  length (clean_pinned d6_cfg 0 0%Z [d6_entry 1; d6_entry 2; d6_entry 3]) = 3%nat /\
  length (clean d6_cfg 0 0%Z [d6_entry 1; d6_entry 2; d6_entry 3]) = 2%nat.
Proof. vm_compute. split; reflexivity. Qed.
Print Assumptions clean_pinned_refuted.

(* D13: the pinned DNS handler indexed Question[0] unconditionally *)
From Verif Require Import Dns.
Theorem dns_pinned_refuted : exists c qs, handle_request_pinned c qs = Panic.
Proof. exists (mkDcfg 0 [] [] []), []. reflexivity. Qed.
Print Assumptions dns_pinned_refuted.

(* D17: before the fix a regular-key rollover on the receive path reset the whole priority
   sequence handler, including this endpoint's OUTGOING priority counter: the same
   (key epoch, priority class, sequence number) is handed out twice. *)
From Verif Require Import Session.
Theorem nonce_unique_pinned_refuted :
  exists e l, q_out (e_regl e) < two32 /\ q_out (e_prio e) < two32 /\
    let '(_, em, wrapped) := run_ops out_pinned in_pinned e l [] false in wrapped = false /\ ~ NoDup em.
Proof.
  exists (mkEp (mkSq 4294967295 0 5) (mkSq 0 0 0) 0 0), [SOut true; SIn 1 false 1; SOut true].
  split; [reflexivity|]. split; [reflexivity|]. vm_compute. split; [reflexivity|].
  intros H. inversion H as [|x l Hnin Hnd]; subst. apply Hnin. left. reflexivity.
Qed.
Print Assumptions nonce_unique_pinned_refuted.

(* D1: on the pinned tree an unknown hash algorithm name crashed VerifyAddress *)
From Verif Require Import Address.
Theorem verify_pinned_refuted : exists H a, verify_address_pinned H a = Panic.
Proof.
  exists (fun _ => None), (mkPub (253 :: repeat 0 15) [78;79;80;69] ed25519_name (repeat 1 32) 0).
  vm_compute. reflexivity.
Qed.
Print Assumptions verify_pinned_refuted.

(* D9: a 6-byte chunk crashed LinkFrame.Unseal on the pinned tree *)
From Verif Require Import LinkFrame.
Theorem lf_unseal_pinned_refuted : exists chunk, snd (lf_unseal_pinned [] sh_init chunk) = Panic.
Proof. exists [0;6;1;0;0;0]. reflexivity. Qed.
Print Assumptions lf_unseal_pinned_refuted.

(* D18: on the pinned tree NextRotateSwitchBlock resliced beyond the block (within the slice's
   capacity) when the return label did not fit, and so wrote the label's last byte over the
   byte that follows the switch block in the frame — the high byte of the message length.
   Witness (found by the C10 harness on a real router): block [210;103], receive label 13266. *)
From Verif Require Import SwitchLabel.
Definition rotate_pinned (block extra : list N) (ret : N) : res (N * list N * list N) :=
  let '(next, n) := uvarint block in
  if (n =? 0)%Z then Err 1
  else if (n <? 0)%Z then Err 2
  else
    let k := Z.to_nat n in
    let b1 := skipn k block ++ repeat 0 k in
    let start := find_slot (next =? 0) b1 in
    let lab := rev (enc ret) in
    if Nat.leb (start + length lab) (length block + length extra) then
      if (0 <? ret) && existsb (fun b => b =? 0) lab then Panic
      else
        let all := write_at (b1 ++ extra) start lab in
        Ok (next mod 65536, firstn (length block) all, skipn (length block) all)
    else Panic.
Theorem rotate_pinned_confined_refuted :
  exists block extra ret next b' e', rotate_pinned block extra ret = Ok (next, b', e') /\ e' <> extra.
Proof.
  exists [210; 103], [0; 21], 13266, 13266, [0; 103], [210; 21]. split; [vm_compute; reflexivity|discriminate].
Qed.
Print Assumptions rotate_pinned_confined_refuted.

(* D12: the pinned tree wrote the state file in place; without O_TRUNC on the temporary file a
   stale longer temporary file corrupts a later shorter save *)
From Verif Require Import Storage StorageProofs.
Theorem storage_pinned_refuted : exists s data c,
  f_state (save_pinned s data c) <> f_state s /\ f_state (save_pinned s data c) <> Some data.
Proof. exact save_pinned_refuted. Qed.
Print Assumptions storage_pinned_refuted.
Theorem storage_notrunc_refuted : exists s h,
  f_state (run false s h) <> f_state s /\ forall x, In x h -> f_state (run false s h) <> Some (fst x).
Proof. exact save_notrunc_refuted. Qed.
Print Assumptions storage_notrunc_refuted.
