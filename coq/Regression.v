(* Regression.v — refutations of the property theorems for the functions as they stood on the
   pinned tree (8498d9a), kept after the fix: commits as standing non-vacuity tests of the
   statements (a statement that the defective code also satisfied would decide nothing). *)
From Verif Require Import Prelude Seq.

(* D2: the pinned SequenceHandler.Check accepts sequence number 2 twice in 1,2,3,2. *)
Theorem at_most_once_pinned_refuted : exists l, ~ NoDup (accepted check_pinned sh_init l).
Proof.
  exists [1;2;3;2]. vm_compute. intros H.
  inversion H as [|x l Hnin Hnd]; subst.
  inversion Hnd as [|x' l' Hnin' Hnd']; subst.
  apply Hnin'. right. left. reflexivity.
Qed.
Print Assumptions at_most_once_pinned_refuted.
