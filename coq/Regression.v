(* Regression.v — refutations of the property theorems for the functions as they stood on the
   pinned tree (8498d9a), kept after the fix: commits as standing non-vacuity tests of the
   statements (a statement that the defective code also satisfied would decide nothing). *)
From Verif Require Import Prelude Seq.

(* D2: the pinned SequenceHandler.Check accepts sequence number 2 twice in 1,2,3,2. *)
Theorem at_most_once_pinned_refuted : exists l, ~ NoDup (accepted check_pinned sh_init l).
Proof.
  exists [1;2;3;2]. vm_compute. intros H.
  inversion H as [|x l Hnin Hnd]; subst.
  inversion Hnd as [|x' l' Hnin' Hnd']; subst.
  apply Hnin'. right. left. reflexivity.
Qed.
Print Assumptions at_most_once_pinned_refuted.

(* D5: CalculateBlockSize summed in uint8 on the pinned tree; 101 hops of 3-byte labels wrap
   to 44 and BuildBlocks indexes out of range (Panic) instead of refusing the path. *)
From Verif Require Import SwitchLabel.
Theorem build_blocks_pinned_refuted :
  exists hops, Forall (fun h => fst h < 65536 /\ snd h < 65536) hops /\ build_blocks_pinned hops = Panic.
Proof.
  exists (mk_hops (repeat 20000 100) (repeat 20000 100)). split.
  - apply Forall_forall. intros h Hin.
    assert (Hb : forallb (fun h => (fst h <? 65536) && (snd h <? 65536)) (mk_hops (repeat 20000 100) (repeat 20000 100)) = true)
      by (vm_compute; reflexivity).
    rewrite forallb_forall in Hb. specialize (Hb h Hin). apply andb_true_iff in Hb as [H1 H2].
    apply N.ltb_lt in H1, H2. split; assumption.
  - vm_compute. reflexivity.
Qed.
Print Assumptions build_blocks_pinned_refuted.
