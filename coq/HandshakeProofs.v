(* HandshakeProofs.v — what a completed handshake guarantees, and what makes it abort (C04). *)
From Verif Require Import Prelude Handshake.

Lemma ua_eqb_eq a b : ua_eqb a b = true -> a = b.
Proof.
  destruct a as [[[[a1 a2] a3] a4] a5], b as [[[[b1 b2] b3] b4] b5]. cbn.
  rewrite !andb_true_iff, !N.eqb_eq. intros ((((-> & ->) & ->) & ->) & ->). reflexivity.
Qed.

(* A link is registered only if: the request came from another address, carried a
   self-certifying identity for exactly its source address, verified under that identity's key,
   named this router's universe; the response verified under the same key, came from that
   address to this router, echoed THIS connection's challenge and — if this router has a
   universe secret — carried the proof for (universe, secret, this challenge, this router, the
   peer); the ack verified under the same key with the same addresses. *)
Theorem completed_implies me chal fresh rq rs ak peer k :
  run_end me chal fresh rq rs ak = Some (peer, k) ->
  q_src rq <> pa_ip me /\ q_addr_ok rq = true /\ q_addr_ip rq = q_src rq /\ peer = q_addr_ip rq /\
  q_connected rq = false /\ q_auth rq = true /\ q_universe rq = pa_universe me /\
  s_auth rs = true /\ s_src rs = peer /\ s_dst rs = pa_ip me /\ s_chal rs = chal /\ s_err rs = false /\
  (pa_secret me <> 0 -> s_ua rs = Some (pa_universe me, pa_secret me, chal, pa_ip me, peer)) /\
  a_auth ak = true /\ a_src ak = peer /\ a_dst ak = pa_ip me /\ a_err ak = false.
Proof.
  unfold run_end, handle_request.
  destruct (N.eqb_spec (q_src rq) (pa_ip me)) as [|Hsrc]; [discriminate|].
  destruct (q_decodes rq); cbn [negb]; [|discriminate].
  destruct (q_ty_ok rq); cbn [negb]; [|discriminate].
  destruct (N.eqb_spec (q_src rq) (q_addr_ip rq)) as [Haddr|]; cbn [negb]; [|discriminate].
  destruct (q_addr_ok rq) eqn:Hok; cbn [negb]; [|discriminate].
  destruct (q_connected rq) eqn:Hcon; [discriminate|].
  destruct (q_auth rq) eqn:Hauth; cbn [negb]; [|discriminate].
  destruct (q_lv rq =? 1); cbn [negb]; [|discriminate].
  destruct (N.eqb_spec (q_universe rq) (pa_universe me)) as [Hu|]; cbn [negb]; [|discriminate].
  destruct (q_chal_len rq <? min_challenge); [discriminate|].
  unfold handle_response. cbn [h_remote].
  destruct (s_auth rs) eqn:Hsa; cbn [negb]; [|discriminate].
  destruct (s_ty_ok rs); cbn [negb]; [|discriminate].
  destruct (N.eqb_spec (s_src rs) (q_addr_ip rq)) as [Hss|]; cbn [negb]; [|discriminate].
  destruct (N.eqb_spec (s_dst rs) (pa_ip me)) as [Hsd|]; cbn [negb]; [|discriminate].
  destruct (s_decodes rs); cbn [negb]; [|discriminate].
  destruct (s_err rs) eqn:Hse; [discriminate|].
  destruct (N.eqb_spec (s_chal rs) chal) as [Hsc|]; cbn [negb]; [|discriminate].
  destruct (negb (pa_secret me =? 0) && negb _) eqn:Hua; [discriminate|].
  assert (Huaf : pa_secret me <> 0 -> s_ua rs = Some (pa_universe me, pa_secret me, chal, pa_ip me, q_addr_ip rq)).
  { intros Hs. apply andb_false_iff in Hua. destruct Hua as [Hua|Hua].
    - apply negb_false_iff, N.eqb_eq in Hua. contradiction.
    - apply negb_false_iff in Hua. destruct (s_ua rs) as [u|]; [|discriminate]. apply ua_eqb_eq in Hua. subst u. reflexivity. }
  assert (Hack : forall st2 key, h_remote st2 = q_addr_ip rq ->
            match handle_ack me st2 key ak with Abort _ => None | Acc k0 _ => Some (h_remote st2, k0) end = Some (peer, k) ->
            peer = q_addr_ip rq /\ a_auth ak = true /\ a_src ak = peer /\ a_dst ak = pa_ip me /\ a_err ak = false).
  { intros st2 key Hr. unfold handle_ack. rewrite Hr.
    destruct (a_auth ak) eqn:Haa; cbn [negb]; [|discriminate].
    destruct (a_ty_ok ak); cbn [negb]; [|discriminate].
    destruct (N.eqb_spec (a_src ak) (q_addr_ip rq)) as [Has|]; cbn [negb]; [|discriminate].
    destruct (N.eqb_spec (a_dst ak) (pa_ip me)) as [Had|]; cbn [negb]; [|discriminate].
    destruct (a_decodes ak); cbn [negb]; [|discriminate].
    destruct (a_err ak) eqn:Hae; [discriminate|].
    intros H.
    assert (peer = q_addr_ip rq).
    { destruct (pa_client me).
      - destruct (a_kx ak), (h_my_kx st2); try discriminate. destruct (negb (a_kx_ok ak)); [discriminate|]. inversion H. reflexivity.
      - destruct key; [|discriminate]. inversion H. reflexivity. }
    subst peer. repeat split; auto. }
  intros H.
  assert (Hfin : peer = q_addr_ip rq /\ a_auth ak = true /\ a_src ak = peer /\ a_dst ak = pa_ip me /\ a_err ak = false).
  { destruct (pa_client me) eqn:Hc.
    - apply (Hack (mkHst (q_addr_ip rq) (Some fresh)) None eq_refl H).
    - destruct (s_kx rs) as [c|]; [|discriminate]. destruct (negb (s_kx_ok rs)); [discriminate|].
      apply (Hack (mkHst (q_addr_ip rq) None) (Some (c, fresh)) eq_refl H). }
  destruct Hfin as (Hp & H1 & H2 & H3 & H4). subst peer.
  repeat split; auto.
Qed.

(* any of the three messages that does not unseal (altered in an authenticated byte, truncated,
   replayed from an earlier connection): no link *)
Theorem tampered_aborts me chal fresh rq rs ak :
  q_auth rq = false \/ s_auth rs = false \/ a_auth ak = false -> run_end me chal fresh rq rs ak = None.
Proof.
  intros H. destruct (run_end me chal fresh rq rs ak) as [[peer k]|] eqn:E; [|reflexivity].
  apply completed_implies in E. destruct E as (_ & _ & _ & _ & _ & H1 & _ & H2 & _ & _ & _ & _ & _ & H3 & _).
  destruct H as [H|[H|H]]; congruence.
Qed.

(* reflection: a router's own request is refused, and messages that are not addressed to it by
   the peer it settled on are refused *)
Theorem reflected_aborts me chal fresh rq rs ak :
  q_src rq = pa_ip me \/ s_dst rs <> pa_ip me \/ a_dst ak <> pa_ip me \/ s_src rs <> q_addr_ip rq \/ a_src ak <> q_addr_ip rq ->
  run_end me chal fresh rq rs ak = None.
Proof.
  intros H. destruct (run_end me chal fresh rq rs ak) as [[peer k]|] eqn:E; [|reflexivity].
  apply completed_implies in E. destruct E as (E1 & _ & _ & Ep & _ & _ & _ & _ & E2 & E3 & _ & _ & _ & _ & E4 & E5 & _).
  subst peer. destruct H as [H|[H|[H|[H|H]]]]; contradiction.
Qed.

(* a response that answers another connection's challenge: no link *)
Theorem stale_challenge_aborts me chal fresh rq rs ak :
  s_chal rs <> chal -> run_end me chal fresh rq rs ak = None.
Proof.
  intros H. destruct (run_end me chal fresh rq rs ak) as [[peer k]|] eqn:E; [|reflexivity].
  apply completed_implies in E. destruct E as (_ & _ & _ & _ & _ & _ & _ & _ & _ & _ & E & _). contradiction.
Qed.

(* the universe proof a router emits can never be the one it expects: echoing a router's own
   response material back to it proves nothing *)
Theorem own_proof_useless me fresh rq st o chal :
  handle_request me fresh rq = Acc st o ->
  o_ua o <> Some (pa_universe me, pa_secret me, chal, pa_ip me, h_remote st).
Proof.
  unfold handle_request.
  destruct (N.eqb_spec (q_src rq) (pa_ip me)) as [|Hsrc]; [discriminate|].
  destruct (negb (q_decodes rq)); [discriminate|]. destruct (negb (q_ty_ok rq)); [discriminate|].
  destruct (N.eqb_spec (q_src rq) (q_addr_ip rq)) as [Ha|]; cbn [negb]; [|discriminate].
  destruct (negb (q_addr_ok rq)); [discriminate|]. destruct (q_connected rq); [discriminate|].
  destruct (negb (q_auth rq)); [discriminate|]. destruct (negb (q_lv rq =? 1)); [discriminate|].
  destruct (negb (q_universe rq =? pa_universe me)); [discriminate|].
  destruct (q_chal_len rq <? min_challenge); [discriminate|].
  intros H. inversion H; subst. cbn [o_ua h_remote].
  destruct (negb (q_universe rq =? 0) && negb (pa_secret me =? 0)); [|discriminate].
  intros E. inversion E. congruence.
Qed.

(* without the secret no proof is emitted; with a secret, a response without (or with another)
   proof is refused *)
Theorem secret_required me st chal fresh rs :
  pa_secret me <> 0 -> s_ua rs <> Some (pa_universe me, pa_secret me, chal, pa_ip me, h_remote st) ->
  exists c, handle_response me st chal fresh rs = Abort c.
Proof.
  intros Hs Hu. unfold handle_response.
  repeat match goal with |- context [if ?b then Abort ?c else _] =>
    lazymatch b with
    | (negb (pa_secret me =? 0) && _) => fail
    | _ => destruct b; [eexists; reflexivity|]
    end end.
  replace (pa_secret me =? 0) with false by (symmetry; apply N.eqb_neq; exact Hs). cbn [negb andb].
  destruct (s_ua rs) as [u|].
  - destruct (ua_eqb u _) eqn:E; [apply ua_eqb_eq in E; subst u; contradiction|]. cbn [negb]. eexists; reflexivity.
  - cbn [negb]. eexists; reflexivity.
Qed.

(* Two honest ends of one connection (distinct addresses, same universe, same secret or none,
   opposite roles, messages delivered as produced): both complete, each reports the other's
   address, and both derive their link keys from the same pair of ephemerals. *)
Theorem honest_completes a b ca cb fa fb :
  pa_ip a <> pa_ip b -> pa_universe a = pa_universe b -> pa_secret a = pa_secret b ->
  (pa_secret a <> 0 -> pa_universe a <> 0) ->
  pa_client a = true -> pa_client b = false ->
  honest a b ca cb fa fb = Some ((pa_ip b, (fa, fb)), (pa_ip a, (fa, fb))).
Proof.
  destruct a as [ia ua sa cla], b as [ib ub sb clb]. cbn [pa_ip pa_universe pa_secret pa_client].
  intros Hip <- <- Hsu -> ->.
  assert (E1 : (ib =? ia) = false) by (apply N.eqb_neq; congruence).
  assert (E2 : (ia =? ib) = false) by (apply N.eqb_neq; congruence).
  unfold honest, handle_request, req_of.
  cbn [q_src q_decodes q_ty_ok q_addr_ip q_addr_ok q_connected q_auth q_lv q_universe q_chal q_chal_len pa_ip pa_universe pa_secret pa_client].
  rewrite E1, E2, !N.eqb_refl. cbn [negb].
  replace (32 <? min_challenge) with false by reflexivity. cbv beta iota.
  unfold handle_response, resp_of.
  cbn [s_auth s_ty_ok s_src s_dst s_decodes s_err s_chal s_ua s_kx s_kx_ok h_remote o_chal o_ua o_kx o_to pa_ip pa_universe pa_secret pa_client negb].
  rewrite !N.eqb_refl. cbn [negb].
  destruct (N.eqb_spec sa 0) as [Hz|Hnz]; cbn [negb andb].
  - unfold handle_ack, ack_of. cbn. rewrite !N.eqb_refl. reflexivity.
  - replace (ua =? 0) with false by (symmetry; apply N.eqb_neq; auto). cbn [negb andb].
    unfold ua_eqb. rewrite !N.eqb_refl. cbn [negb andb].
    unfold handle_ack, ack_of. cbn. rewrite !N.eqb_refl. reflexivity.
Qed.
