(* Registry.v — the link registry of one router and its tie to the routing table
   (peering/peering.go: AddLink, RemoveLink, GetLink, GetLinkByLabel; peering/link.go:
   assignSwitchLabel gives a non-zero label; m/table.go: AddRoute for the peer route,
   RemoveNextHop).  AddLink and RemoveLink hold the registry lock for their whole body
   (checked on the source, Gen.v), so a history is a sequence of these operations.
   A link object is (id, peer, label); routes are (destination, next hop, is peer route). *)
From Verif Require Import Prelude.

Record link := mkLink { l_id : N; l_peer : N; l_label : N }.
Definition route := (N * N * bool)%type.

Record reg := mkReg {
  by_peer : list (N * link);
  by_label : list (N * link);
  routes : list route
}.

Definition link_eqb (a b : link) : bool := l_id a =? l_id b.

Fixpoint lookup {V} (k : N) (l : list (N * V)) : option V :=
  match l with [] => None | (k', v) :: t => if k =? k' then Some v else lookup k t end.
Definition remove_key {V} (k : N) (l : list (N * V)) : list (N * V) := filter (fun x => negb (fst x =? k)) l.

Inductive op :=
| OAdd (l : link) (routable : bool)   (* AddLink; routable = the routing table accepts a peer route for l's peer *)
| ORemove (l : link)                  (* RemoveLink *)
| OGossip (dst nh : N).               (* a route learned from an announcement delivered by peer nh *)

(* AddLink: returns the new registry and whether the link was registered *)
Definition add_link (r : reg) (l : link) (routable : bool) : reg * bool :=
  match lookup (l_peer l) (by_peer r) with
  | Some e => if link_eqb e l then (r, true) else (r, false)                (* already connected *)
  | None =>
    match lookup (l_label l) (by_label r) with
    | Some e => (r, false)                                                  (* label in use *)
    | None =>
      if negb routable then (r, false)
      else (mkReg ((l_peer l, l) :: by_peer r) ((l_label l, l) :: by_label r)
                  ((l_peer l, l_peer l, true) :: filter (fun x => negb ((fst (fst x) =? l_peer l) && snd x)) (routes r)), true)
    end
  end.

Definition remove_link (r : reg) (l : link) : reg :=
  let mine := match lookup (l_peer l) (by_peer r) with Some e => link_eqb e l | None => false end in
  let mine_lab := match lookup (l_label l) (by_label r) with Some e => link_eqb e l | None => false end in
  mkReg (if mine then remove_key (l_peer l) (by_peer r) else by_peer r)
        (if mine_lab then remove_key (l_label l) (by_label r) else by_label r)
        (if mine then filter (fun x => negb (snd (fst x) =? l_peer l)) (routes r) else routes r).

Definition step (r : reg) (o : op) : reg :=
  match o with
  | OAdd l rt => fst (add_link r l rt)
  | ORemove l => remove_link r l
  | OGossip dst nh => mkReg (by_peer r) (by_label r) ((dst, nh, false) :: routes r)
  end.

Definition init : reg := mkReg [] [] [].

(* what a well-behaved caller guarantees: labels are non-zero (assignSwitchLabel), a link object
   keeps its peer and label (distinct objects have distinct ids), a route is learned only from
   a peer whose link is registered when the announcement is handled *)
Definition op_ok (r : reg) (o : op) : Prop :=
  match o with
  | OAdd l _ => l_label l <> 0 /\
                (forall e, In e (map snd (by_peer r) ++ map snd (by_label r)) -> l_id e = l_id l -> e = l)
  | ORemove l => forall e, In e (map snd (by_peer r) ++ map snd (by_label r)) -> l_id e = l_id l -> e = l
  | OGossip dst nh => lookup nh (by_peer r) <> None /\ dst <> nh
  end.

(* the property *)
Record inv (r : reg) : Prop := {
  inv_peer_key : forall p l, In (p, l) (by_peer r) -> l_peer l = p;
  inv_label_key : forall b l, In (b, l) (by_label r) -> l_label l = b /\ b <> 0;
  inv_peer_nodup : NoDup (map fst (by_peer r));
  inv_label_nodup : NoDup (map fst (by_label r));
  inv_same_links : forall l, In l (map snd (by_peer r)) <-> In l (map snd (by_label r));
  inv_peer_route : forall p, In (p, p, true) (routes r) <-> lookup p (by_peer r) <> None;
  inv_nexthop_live : forall d n b, In (d, n, b) (routes r) -> lookup n (by_peer r) <> None
}.
