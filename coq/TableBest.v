(* TableBest.v — AddRoute never makes the best route to any destination worse.
   Used by GossipDelivers.v (C09 ∘ C10): the hop count of a router's best route to a destination
   can only go down while announcements are handled, so "my next hop holds a strictly shorter
   route" stays true once it is true. *)
From Verif Require Import Prelude SwitchLabel Table TableProofs TableSorted TableBounds.

(* the shape of a successful AddRoute: unchanged, one insertion, or one replacement inside the
   destination's section (of an equal route, or of a route that sorts after the new one) *)
Lemma add_route_shape cfg now t e0 t' b :
  sorted t -> tpwf t -> add_route cfg now t e0 = Ok (t', b) ->
  exists e, same_route e e0 /\ e_thops e = calc_thops (e_path e0) /\
    (t' = t \/ (exists i, t' = insert_at t i e) \/
     (exists i x s en, (s <= en)%nat /\ nth_error t i = Some x /\ t' = sort_section (replace_at t i e) s en /\
                       e_dst x = e_dst e0 /\ (route_equals x e = true \/ (std_cmp e x < 0)%Z))).
Proof.
  intros Hs Hw. unfold add_route.
  destruct (rp_for cfg (e_dst e0)) as [rp|]; [|discriminate].
  destruct (if 0 <? rp_rbits rp then _ else _) as [pa pb].
  repeat match goal with |- context [if ?c then Err _ else _] => destruct c; [discriminate|] end.
  match goal with |- context [match ?c with Ok _ => _ | Err _ => _ | Panic => _ end] => destruct c as [exp2|?|] end; try discriminate.
  destruct (build_blocks (labels_of (e_path e0))); try discriminate.
  set (e := mkEntry (e_dst e0) pa pb (e_nexthop e0) (e_path e0) (e_stub e0) (e_source e0) exp2 (calc_thops (e_path e0)) (calc_tdelay (e_path e0) (e_tdelay e0))).
  intros Ha. exists e. split; [unfold same_route, e; cbn; repeat split|]. split; [reflexivity|]. revert Ha.
  pose proof (tpwf_twf t Hw) as Htw.
  destruct (dst_section t (e_dst e)) as [s en] eqn:Hsec.
  destruct (dst_section_spec t (e_dst e) s en Hs Htw Hsec) as (Hbnd & Hlo & Hmid & Hhi).
  assert (Hmid' : forall i x, (s <= i < en)%nat -> nth_error t i = Some x -> e_dst x = e_dst e0).
  { intros i x Hi Hx. change (e_dst e0) with (e_dst e). apply Hmid. apply (nth_error_In _ (i - s)).
    rewrite nth_error_skipn_firstn by lia. replace (s + (i - s))%nat with i by lia. exact Hx. }
  destruct (Nat.leb_spec en s) as [Hle|Hgt].
  - match goal with |- context [if ?c then Ok (t, false) else _] => destruct c end; intros H; inversion H; subst; [left; reflexivity|right; left; eexists; reflexivity].
  - match goal with |- context [if ?c then Ok (t, false) else _] => destruct c end; [intros H; inversion H; left; reflexivity|].
    match goal with |- context [match ?f with Some _ => _ | None => _ end] => destruct f as [i|] eqn:Hf end.
    + intros H. inversion H; subst. right. right.
      pose proof (find_eq_range _ _ _ _ Hf) as Hr. rewrite firstn_length, skipn_length in Hr.
      destruct (find_eq_some _ _ _ _ Hf) as (x & Hx & Hreq & _).
      assert (Hxi : nth_error t i = Some x).
      { rewrite nth_error_skipn_firstn in Hx by lia. replace (s + (i - s))%nat with i in Hx by lia. exact Hx. }
      exists i, x, s, en. split; [lia|]. split; [exact Hxi|]. split; [reflexivity|]. split; [apply (Hmid' i); [lia|exact Hxi]|left; exact Hreq].
    + match goal with |- context [if ?c then Ok (insert_at _ _ _, true) else _] => destruct c eqn:Hc3 end; [intros H; inversion H; subst; right; left; eexists; reflexivity|].
      destruct (nth_error t (s + 2)) as [third|] eqn:Hth; [|discriminate].
      destruct (std_cmp e third <? 0)%Z eqn:Hcmp; intros H; inversion H; subst; [|left; reflexivity].
      apply orb_false_iff in Hc3. destruct Hc3 as [Hc3 _]. apply Nat.ltb_ge in Hc3.
      right. right. exists (s + 2)%nat, third, s, en. split; [lia|]. split; [exact Hth|]. split; [reflexivity|].
      split; [apply (Hmid' (s + 2)%nat); [lia|exact Hth]|right; apply Z.ltb_lt; exact Hcmp].
Qed.

(* every route of the new table is an old one or the new one *)
Lemma add_route_sub cfg now t e0 t' b y :
  sorted t -> tpwf t -> add_route cfg now t e0 = Ok (t', b) -> In y t' ->
  In y t \/ (same_route y e0 /\ e_thops y = calc_thops (e_path e0)).
Proof.
  intros Hs Hw Ha Hy. destruct (add_route_shape _ _ _ _ _ _ Hs Hw Ha) as (e & Hsame & Hth & [->|[(i & ->)|(i & x & s & en & Hle & Hx & -> & _)]]).
  - left; exact Hy.
  - apply insert_at_in in Hy. destruct Hy as [<-|Hy]; [right; split; assumption|left; exact Hy].
  - apply sort_section_in in Hy; [|exact Hle]. apply replace_at_in in Hy. destruct Hy as [->|Hy]; [right; split; assumption|left; exact Hy].
Qed.

(* a route to d with at most k hops: once there, always there *)
Definition reach_le (t : list entry) (d k : N) : Prop := exists x, In x t /\ e_dst x = d /\ e_thops x <= k.

Theorem add_route_best_mono cfg now t e0 t' b d k :
  sorted t -> tpwf t -> tswf t ->
  (e_source e0 = src_peer -> (length (e_path e0) <= 2)%nat) ->
  (e_source e0 <> src_peer -> (3 <= length (e_path e0) <= 255)%nat) ->
  add_route cfg now t e0 = Ok (t', b) -> reach_le t d k -> reach_le t' d k.
Proof.
  intros Hs Hw Hsw Hp Hnp Ha (x0 & Hx0 & Hd0 & Hk0).
  destruct (add_route_shape _ _ _ _ _ _ Hs Hw Ha) as (e & Hsame & Hth & [->|[(i & ->)|(i & x & s & en & Hle & Hx & -> & Hdx & Hrel)]]).
  - exists x0. auto.
  - exists x0. split; [apply insert_at_in; right; exact Hx0|auto].
  - destruct (replace_at_keeps t i x e x0 Hx Hx0) as [->|Hin].
    + (* the replaced route was the witness: the new one is no longer *)
      exists e. split; [apply sort_section_in; [exact Hle|apply replace_at_in_new]|].
      destruct Hsame as (Sd & _ & Sp & Ss & _). split; [congruence|].
      assert (Se : swf e).
      { split; intros Hsrc; rewrite Hth.
        - apply calc_thops_peer. apply Hp. congruence.
        - apply calc_thops_np. apply Hnp. congruence. }
      destruct Hrel as [Hreq|Hlt].
      * pose proof (route_equals_same_class x e (Hsw x (nth_error_In _ _ Hx)) Se Hreq) as Hcl.
        destruct (Hsw x (nth_error_In _ _ Hx)) as [Xp Xn]. destruct Se as [Ep En].
        destruct (N.eqb_spec (e_source x) src_peer) as [Sx|Sx], (N.eqb_spec (e_source e) src_peer) as [Se'|Se']; try discriminate.
        -- rewrite (Ep Se'). rewrite (Xp Sx) in Hk0. exact Hk0.
        -- unfold route_equals in Hreq. destruct (e_dst x =? e_dst e); cbn [negb] in Hreq; [|discriminate].
           destruct (N.eqb_spec (e_source x) src_peer); [contradiction|]. cbn [andb] in Hreq.
           destruct (N.eqb_spec (e_thops x) (e_thops e)) as [E|E]; cbn [negb] in Hreq; [|discriminate]. lia.
      * apply std_lt_iff in Hlt. destruct Hlt as [Hlt|(_ & [Hlt|(Heq & _)])]; [rewrite Sd, <- Hdx in Hlt; lia|lia|lia].
    + exists x0. split; [apply sort_section_in; [exact Hle|exact Hin]|auto].
Qed.
