(* Gossip.v — the flooding protocol of announcements over a mesh of honest, non-stub routers
   (router/ping_announce.go: Send, Handle — the forwarding selection; switchr: frames from
   myself are ignored), as a transition system over: which router holds a route to which origin,
   the frames in flight, and the history of everything ever put on a link.
   One delivery step is what Control.announce_ping does at the receiving router, abstracted to:
     - ignored, if the receiver is the origin or already in the hop list (looping);
     - dropped (delayed duplicate, or AddRoute did not add): only when the receiver already
       holds a route to the origin — this is the refinement obligation the harness checks at
       every delivery in real meshes (DESIGN §C09);
     - added: the receiver now holds a route and forwards, with itself prepended to the hop
       list, to every neighbour except the origin, the sender and the hop-list members
       (Control.forward_targets and its converse forward_targets_complete). *)
From Verif Require Import Prelude.

Section Gossip.
  Variable nodes : list N.
  Variable adj : N -> N -> bool.

  Definition neighbours (r : N) : list N := filter (adj r) nodes.

  Record msg := mkMsg { g_id : N; g_origin : N; g_hops : list N; g_from : N; g_to : N }.

  Definition memN (x : N) (l : list N) : bool := existsb (N.eqb x) l.

  Definition targets (r : N) (m : msg) : list N :=
    filter (fun x => negb (x =? g_origin m) && negb (x =? g_from m) && negb (memN x (g_hops m))) (neighbours r).

  Record gst := mkG {
    has : list (N * N);          (* (router, origin): router holds a route to origin *)
    inflight : list msg;
    history : list msg;          (* every frame ever put on a link *)
    delivered : list msg;        (* every frame taken off a link *)
    announced : list (N * N)     (* (announcement id, origin) *)
  }.

  Definition has_route (s : gst) (r o : N) : Prop := In (r, o) (has s).

  Definition fresh_msgs (id o : N) : list msg := map (fun x => mkMsg id o [] o x) (neighbours o).
  Definition fwd_msgs (r : N) (m : msg) : list msg :=
    map (fun x => mkMsg (g_id m) (g_origin m) (r :: g_hops m) r x) (targets r m).

  Inductive gstep : gst -> gst -> Prop :=
  | GAnnounce s id o :
      In o nodes -> (forall o', ~ In (id, o') (announced s)) ->
      gstep s (mkG (has s) (inflight s ++ fresh_msgs id o) (history s ++ fresh_msgs id o) (delivered s) ((id, o) :: announced s))
  | GIgnore s pre m post :
      inflight s = pre ++ m :: post ->
      (g_to m = g_origin m \/ In (g_to m) (g_hops m)) ->
      gstep s (mkG (has s) (pre ++ post) (history s) (m :: delivered s) (announced s))
  | GDrop s pre m post :
      inflight s = pre ++ m :: post ->
      has_route s (g_to m) (g_origin m) ->
      gstep s (mkG (has s) (pre ++ post) (history s) (m :: delivered s) (announced s))
  | GAdd s pre m post :
      inflight s = pre ++ m :: post ->
      g_to m <> g_origin m -> ~ In (g_to m) (g_hops m) ->
      gstep s (mkG ((g_to m, g_origin m) :: has s) (pre ++ post ++ fwd_msgs (g_to m) m)
                   (history s ++ fwd_msgs (g_to m) m) (m :: delivered s) (announced s)).

  Definition ginit : gst := mkG [] [] [] [] [].

  Inductive reachable : gst -> Prop :=
  | R0 : reachable ginit
  | RS s s' : reachable s -> gstep s s' -> reachable s'.

  (* the path a frame has travelled, origin first *)
  Definition path_of (m : msg) : list N := g_origin m :: rev (g_hops m) ++ [g_to m].

  (* a walk in the graph *)
  Fixpoint walk (a : N) (p : list N) (b : N) : Prop :=
    match p with
    | [] => a = b
    | x :: t => adj a x = true /\ In x nodes /\ walk x t b
    end.
  Definition connected : Prop := forall a b, In a nodes -> In b nodes -> exists p, walk a p b.

  (* termination measure: a frame with h hop records weighs (D+1)^(n-h), D = n = number of routers *)
  Definition weight (m : msg) : nat := Nat.pow (S (length nodes)) (length nodes - length (g_hops m)).
  Fixpoint sum_w (l : list msg) : nat := match l with [] => O | m :: t => (weight m + sum_w t)%nat end.
  Definition mu (s : gst) : nat := sum_w (inflight s).

  Definition is_delivery (s s' : gst) : Prop := gstep s s' /\ announced s' = announced s.
End Gossip.
