(* PolicyCorr.v — correspondence functions for C06 (no proofs). *)
From Verif Require Import Prelude Gen SeqCorr Policy.

(* config parse + CheckInboundTrafficPolicy: cfg, whether the real parser accepted it,
   probes (protocol, port, sender, observed verdict) *)
Definition c06_pcase := (cfg * bool * list (N * N * N * bool))%type.
Definition c06_pok (c : c06_pcase) : bool :=
  let '(cf, parsed, probes) := c in
  match compile cf with
  | Ok pol => parsed && forallb (fun q => let '(proto, port, sender, o) := q in Bool.eqb (check_in pol proto port sender) o) probes
  | Err _ => negb parsed
  | Panic => false
  end.

(* inbound pipeline on one router with a running connection cache:
   steps (unsealed, frame src, frame dst, packet, observed delivered-to-tun) *)
Definition c06_istep := (bool * N * N * pkt * bool)%type.
Fixpoint run_inbound (cf : cfg) (pol : policy) (ch : cache) (handle : bool) (l : list c06_istep) : bool :=
  match l with
  | [] => true
  | (unsealed, fsrc, fdst, k, o) :: t =>
    let '(v, ch') := inbound cf pol ch handle unsealed fsrc fdst k in
    Bool.eqb (verdict_eqb v Deliver) o && run_inbound cf pol ch' handle t
  end.
Definition c06_icase := (cfg * bool * list c06_istep)%type.
Definition c06_iok (c : c06_icase) : bool :=
  let '(cf, handle, steps) := c in
  match compile cf with Ok pol => run_inbound cf pol [] handle steps | _ => false end.

(* outbound admission: steps (packet, observed: entered the mesh as traffic or key setup) *)
Definition c06_ostep := (pkt * bool)%type.
Fixpoint run_outbound (cf : cfg) (pol : policy) (ch : cache) (handle : bool) (api : N) (l : list c06_ostep) : bool :=
  match l with
  | [] => true
  | (k, o) :: t =>
    let '(v, ch') := outbound cf pol ch handle api k in
    Bool.eqb (verdict_eqb v Deliver) o && run_outbound cf pol ch' handle api t
  end.
Definition c06_ocase := (cfg * bool * N * list c06_ostep)%type.
Definition c06_ook (c : c06_ocase) : bool :=
  let '(cf, handle, api, steps) := c in
  match compile cf with Ok pol => run_outbound cf pol [] handle api steps | _ => false end.

(* histories with re-markings: steps (hstep, observed: delivered / entered the mesh; ignored for marks) *)
Fixpoint run_hist (cf : cfg) (pol : policy) (handle : bool) (api : N) (ch : cache) (l : list (hstep * bool)) : bool :=
  match l with
  | [] => true
  | (s, o) :: t =>
    let '(v, ch') := hstep_run cf pol handle api ch s in
    (match v with Some x => Bool.eqb (verdict_eqb x Deliver) o | None => true end) && run_hist cf pol handle api ch' t
  end.
Definition c06_hcase := (cfg * bool * N * list (hstep * bool))%type.
Definition c06_hok (c : c06_hcase) : bool :=
  let '(cf, handle, api, steps) := c in
  match compile cf with Ok pol => run_hist cf pol handle api [] steps | _ => false end.
