(* HandshakeCorr.v — correspondence for C04 (no proofs): one connection end of a real handshake;
   the three messages as it received them (verdicts computed by the harness with the real
   verifier against the keys its state binds), observed: 0 = completed with the given peer,
   1/2/3 = aborted while handling the first/second/third message. *)
From Verif Require Import Prelude SeqCorr Handshake.

Definition stage (me : party) (chal fresh : N) (rq : hreq) (rs : hresp) (ak : hack) : N * N :=
  match handle_request me fresh rq with
  | Abort _ => (1, 0)
  | Acc st _ =>
    match handle_response me st chal fresh rs with
    | Abort _ => (2, 0)
    | Acc (st2, key) _ =>
      match handle_ack me st2 key ak with
      | Abort _ => (3, 0)
      | Acc _ _ => (0, h_remote st2)
      end
    end
  end.

Definition c04_case := (party * N * N * hreq * hresp * hack * (N * N))%type.
Definition c04_ok (c : c04_case) : bool :=
  let '(me, chal, fresh, rq, rs, ak, (ost, opeer)) := c in
  let '(mst, mpeer) := stage me chal fresh rq rs ak in
  (mst =? ost) && ((negb (mst =? 0)) || (mpeer =? opeer)).
