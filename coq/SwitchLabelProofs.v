(* SwitchLabelProofs.v — lemmas about SwitchLabel.v (C12). *)
From Verif Require Import Prelude SwitchLabel.

(* ---------- finite sweeps over the uint16 label domain ---------- *)
Definition all_below (P : N -> bool) (n : N) : bool :=
  N.recursion true (fun k acc => acc && P k) n.

Lemma all_below_spec P n : all_below P n = true -> forall k, k < n -> P k = true.
Proof.
  unfold all_below. induction n as [|n IH] using N.peano_ind; intros H k Hk; [lia|].
  rewrite N.recursion_succ in H; [|reflexivity|intros ? ? -> ? ? ->; reflexivity].
  apply andb_true_iff in H as [H1 H2].
  destruct (N.eq_dec k n) as [->|Hne]; [assumption|]. apply IH; [assumption|lia].
Qed.

Lemma sweep_uvarint_enc :
  all_below (fun x => let '(v, n) := uvarint (enc x) in (v =? x) && (n =? Z.of_nat (esize x))%Z) 65536 = true.
Proof. vm_compute. reflexivity. Qed.

Lemma sweep_enc_nonzero :
  all_below (fun x => (x =? 0) || forallb (fun b => negb (b =? 0)) (enc x)) 65536 = true.
Proof. vm_compute. reflexivity. Qed.

Lemma sweep_enc_length :
  all_below (fun x => Nat.eqb (length (enc x)) (esize x)) 65536 = true.
Proof. vm_compute. reflexivity. Qed.

Lemma sweep_enc_bytes :
  all_below (fun x => forallb (fun b => b <? 256) (enc x)) 65536 = true.
Proof. vm_compute. reflexivity. Qed.

Definition nzb (b : N) : bool := negb (b =? 0).
Definition all_nz (l : list N) : Prop := forallb nzb l = true.

Lemma label_ok_lt x : label_ok x = true -> 0 < x /\ x < 65536.
Proof. unfold label_ok. intros H. apply andb_true_iff in H as [H1 H2]. apply N.ltb_lt in H1, H2. split; assumption. Qed.

Lemma uvarint_enc_closed x : x < 65536 -> uvarint (enc x) = (x, Z.of_nat (esize x)).
Proof.
  intros Hx. pose proof (all_below_spec _ _ sweep_uvarint_enc x Hx) as H. cbv beta in H.
  destruct (uvarint (enc x)) as [v n]. apply andb_true_iff in H as [H1 H2].
  apply N.eqb_eq in H1. apply Z.eqb_eq in H2. subst. reflexivity.
Qed.

Lemma enc_length x : x < 65536 -> length (enc x) = esize x.
Proof. intros Hx. pose proof (all_below_spec _ _ sweep_enc_length x Hx) as H. apply Nat.eqb_eq in H. exact H. Qed.

Lemma enc_nonzero x : label_ok x = true -> all_nz (enc x).
Proof.
  intros H. apply label_ok_lt in H as [H0 H1].
  pose proof (all_below_spec _ _ sweep_enc_nonzero x H1) as H. cbv beta in H.
  apply orb_true_iff in H as [H|H]; [apply N.eqb_eq in H; lia|exact H].
Qed.

Lemma esize_pos x : (1 <= esize x)%nat.
Proof. unfold esize. destruct (x <=? 127); [lia|]. destruct (x <=? 16383); lia. Qed.

Lemma esize_le3 x : (esize x <= 3)%nat.
Proof. unfold esize. destruct (x <=? 127); [lia|]. destruct (x <=? 16383); lia. Qed.

(* ---------- uvarint ignores what follows a complete varint ---------- *)
Lemma uvarint_go_app buf rest : forall i x s v n,
  uvarint_go buf i x s = (v, n) -> (0 < n)%Z -> uvarint_go (buf ++ rest) i x s = (v, n).
Proof.
  induction buf as [|b t IH]; intros i x s v n H Hn; cbn [uvarint_go app] in *.
  - inversion H; subst. lia.
  - destruct (Nat.eqb i 10); [inversion H; subst; lia|].
    destruct (b <? 128).
    + destruct (Nat.eqb i 9 && (1 <? b)); [inversion H; subst; lia|exact H].
    + apply IH; assumption.
Qed.

Lemma uvarint_enc x rest : x < 65536 -> uvarint (enc x ++ rest) = (x, Z.of_nat (esize x)).
Proof.
  intros Hx. unfold uvarint. apply uvarint_go_app; [apply uvarint_enc_closed; exact Hx|].
  pose proof (esize_pos x). lia.
Qed.

(* ---------- find_slot ---------- *)
Lemma find_slot_from_nz A : forall seen rest i d, all_nz A ->
  find_slot_from seen (A ++ rest) i d = find_slot_from seen rest (i + length A) d.
Proof.
  unfold all_nz. induction A as [|a A IH]; intros seen rest i d H; cbn [app length forallb find_slot_from] in *.
  - f_equal. lia.
  - apply andb_true_iff in H as [Ha HA]. unfold nzb in Ha. apply negb_true_iff in Ha. rewrite Ha.
    rewrite IH by assumption. f_equal. lia.
Qed.

Lemma find_slot_two_zeros A B rest d i : all_nz A -> all_nz B ->
  find_slot_from false (A ++ 0 :: B ++ 0 :: rest) i d = (i + length A + 1 + length B)%nat.
Proof.
  intros HA HB. rewrite find_slot_from_nz by assumption. cbn [find_slot_from]. rewrite N.eqb_refl.
  rewrite find_slot_from_nz by assumption. cbn [find_slot_from]. rewrite N.eqb_refl. lia.
Qed.

Lemma find_slot_one_zero_end A d i : all_nz A ->
  find_slot_from false (A ++ [0]) i d = d.
Proof.
  intros HA. rewrite find_slot_from_nz by assumption. cbn [find_slot_from]. rewrite N.eqb_refl. reflexivity.
Qed.

Lemma find_slot_seen B rest d i : all_nz B ->
  find_slot_from true (B ++ 0 :: rest) i d = (i + length B)%nat.
Proof.
  intros HB. rewrite find_slot_from_nz by assumption. cbn [find_slot_from]. rewrite N.eqb_refl. reflexivity.
Qed.

(* ---------- write_at ---------- *)
Lemma write_at_app P : forall M v, write_at (P ++ M) (length P) v = P ++ v ++ skipn (length v) M.
Proof. induction P as [|p P IH]; intros M v; cbn [app length write_at]; [reflexivity|]. rewrite IH. reflexivity. Qed.

Lemma skipn_repeat {A} (a : A) k n : skipn k (repeat a n) = repeat a (n - k).
Proof.
  revert n; induction k as [|k IH]; intros n; [rewrite Nat.sub_0_r; reflexivity|].
  destruct n as [|n]; [reflexivity|]. cbn [repeat skipn]. apply IH.
Qed.

Lemma repeat_app_plus {A} (a : A) n m : repeat a n ++ repeat a m = repeat a (n + m).
Proof. symmetry. apply repeat_app. Qed.

Lemma all_nz_app A B : all_nz A -> all_nz B -> all_nz (A ++ B).
Proof. unfold all_nz. intros HA HB. rewrite forallb_app, HA, HB. reflexivity. Qed.

Lemma all_nz_rev A : all_nz A -> all_nz (rev A).
Proof.
  unfold all_nz. intros H. apply forallb_forall. intros x Hx. apply in_rev in Hx.
  rewrite forallb_forall in H. apply H. exact Hx.
Qed.

Lemma all_nz_no_zero A : all_nz A -> existsb (fun b => b =? 0) A = false.
Proof.
  unfold all_nz. induction A as [|a A IH]; cbn [forallb existsb]; intros H; [reflexivity|].
  apply andb_true_iff in H as [Ha HA]. unfold nzb in Ha. apply negb_true_iff in Ha. rewrite Ha. apply IH. exact HA.
Qed.
