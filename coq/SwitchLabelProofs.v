(* SwitchLabelProofs.v — lemmas about SwitchLabel.v (C12). *)
From Verif Require Import Prelude SwitchLabel.

(* ---------- finite sweeps over the uint16 label domain ---------- *)
Definition all_below (P : N -> bool) (n : N) : bool :=
  N.recursion true (fun k acc => acc && P k) n.

Lemma all_below_spec P n : all_below P n = true -> forall k, k < n -> P k = true.
Proof.
  unfold all_below. induction n as [|n IH] using N.peano_ind; intros H k Hk; [lia|].
  rewrite N.recursion_succ in H; [|reflexivity|intros ? ? -> ? ? ->; reflexivity].
  apply andb_true_iff in H as [H1 H2].
  destruct (N.eq_dec k n) as [->|Hne]; [assumption|]. apply IH; [assumption|lia].
Qed.

Lemma sweep_uvarint_enc :
  all_below (fun x => let '(v, n) := uvarint (enc x) in (v =? x) && (n =? Z.of_nat (esize x))%Z) 65536 = true.
Proof. vm_compute. reflexivity. Qed.

Lemma sweep_enc_nonzero :
  all_below (fun x => (x =? 0) || forallb (fun b => negb (b =? 0)) (enc x)) 65536 = true.
Proof. vm_compute. reflexivity. Qed.

Lemma sweep_enc_length :
  all_below (fun x => Nat.eqb (length (enc x)) (esize x)) 65536 = true.
Proof. vm_compute. reflexivity. Qed.

Lemma sweep_enc_bytes :
  all_below (fun x => forallb (fun b => b <? 256) (enc x)) 65536 = true.
Proof. vm_compute. reflexivity. Qed.

Definition nzb (b : N) : bool := negb (b =? 0).
Definition all_nz (l : list N) : Prop := forallb nzb l = true.

Lemma label_ok_lt x : label_ok x = true -> 0 < x /\ x < 65536.
Proof. unfold label_ok. intros H. apply andb_true_iff in H as [H1 H2]. apply N.ltb_lt in H1, H2. split; assumption. Qed.

Lemma uvarint_enc_closed x : x < 65536 -> uvarint (enc x) = (x, Z.of_nat (esize x)).
Proof.
  intros Hx. pose proof (all_below_spec _ _ sweep_uvarint_enc x Hx) as H. cbv beta in H.
  destruct (uvarint (enc x)) as [v n]. apply andb_true_iff in H as [H1 H2].
  apply N.eqb_eq in H1. apply Z.eqb_eq in H2. subst. reflexivity.
Qed.

Lemma enc_length x : x < 65536 -> length (enc x) = esize x.
Proof. intros Hx. pose proof (all_below_spec _ _ sweep_enc_length x Hx) as H. apply Nat.eqb_eq in H. exact H. Qed.

Lemma enc_nonzero x : label_ok x = true -> all_nz (enc x).
Proof.
  intros H. apply label_ok_lt in H as [H0 H1].
  pose proof (all_below_spec _ _ sweep_enc_nonzero x H1) as H. cbv beta in H.
  apply orb_true_iff in H as [H|H]; [apply N.eqb_eq in H; lia|exact H].
Qed.

Lemma esize_pos x : (1 <= esize x)%nat.
Proof. unfold esize. destruct (x <=? 127); [lia|]. destruct (x <=? 16383); lia. Qed.

Lemma esize_le3 x : (esize x <= 3)%nat.
Proof. unfold esize. destruct (x <=? 127); [lia|]. destruct (x <=? 16383); lia. Qed.

(* ---------- uvarint ignores what follows a complete varint ---------- *)
Lemma uvarint_go_app buf rest : forall i x s v n,
  uvarint_go buf i x s = (v, n) -> (0 < n)%Z -> uvarint_go (buf ++ rest) i x s = (v, n).
Proof.
  induction buf as [|b t IH]; intros i x s v n H Hn; cbn [uvarint_go app] in *.
  - inversion H; subst. lia.
  - destruct (Nat.eqb i 10); [inversion H; subst; lia|].
    destruct (b <? 128).
    + destruct (Nat.eqb i 9 && (1 <? b)); [inversion H; subst; lia|exact H].
    + apply IH; assumption.
Qed.

Lemma uvarint_enc x rest : x < 65536 -> uvarint (enc x ++ rest) = (x, Z.of_nat (esize x)).
Proof.
  intros Hx. unfold uvarint. apply uvarint_go_app; [apply uvarint_enc_closed; exact Hx|].
  pose proof (esize_pos x). lia.
Qed.

(* ---------- find_slot ---------- *)
Lemma find_slot_from_nz A : forall seen rest i d, all_nz A ->
  find_slot_from seen (A ++ rest) i d = find_slot_from seen rest (i + length A) d.
Proof.
  unfold all_nz. induction A as [|a A IH]; intros seen rest i d H; cbn [app length forallb find_slot_from] in *.
  - f_equal. lia.
  - apply andb_true_iff in H as [Ha HA]. unfold nzb in Ha. apply negb_true_iff in Ha. rewrite Ha.
    rewrite IH by assumption. f_equal. lia.
Qed.

Lemma find_slot_two_zeros A B rest d i : all_nz A -> all_nz B ->
  find_slot_from false (A ++ 0 :: B ++ 0 :: rest) i d = (i + length A + 1 + length B)%nat.
Proof.
  intros HA HB. rewrite find_slot_from_nz by assumption. cbn [find_slot_from]. rewrite N.eqb_refl.
  rewrite find_slot_from_nz by assumption. cbn [find_slot_from]. rewrite N.eqb_refl. lia.
Qed.

Lemma find_slot_one_zero_end A d i : all_nz A ->
  find_slot_from false (A ++ [0]) i d = d.
Proof.
  intros HA. rewrite find_slot_from_nz by assumption. cbn [find_slot_from]. rewrite N.eqb_refl. reflexivity.
Qed.

Lemma find_slot_seen B rest d i : all_nz B ->
  find_slot_from true (B ++ 0 :: rest) i d = (i + length B)%nat.
Proof.
  intros HB. rewrite find_slot_from_nz by assumption. cbn [find_slot_from]. rewrite N.eqb_refl. reflexivity.
Qed.

(* ---------- write_at ---------- *)
Lemma write_at_app P : forall M v, write_at (P ++ M) (length P) v = P ++ v ++ skipn (length v) M.
Proof. induction P as [|p P IH]; intros M v; cbn [app length write_at]; [destruct M; reflexivity|]. rewrite IH. reflexivity. Qed.

Lemma skipn_repeat {A} (a : A) k n : skipn k (repeat a n) = repeat a (n - k).
Proof.
  revert n; induction k as [|k IH]; intros n; [rewrite Nat.sub_0_r; reflexivity|].
  destruct n as [|n]; [reflexivity|]. cbn [repeat skipn]. apply IH.
Qed.

Lemma repeat_app_plus {A} (a : A) n m : repeat a n ++ repeat a m = repeat a (n + m).
Proof. symmetry. apply repeat_app. Qed.

Lemma all_nz_app A B : all_nz A -> all_nz B -> all_nz (A ++ B).
Proof. unfold all_nz. intros HA HB. rewrite forallb_app, HA, HB. reflexivity. Qed.

Lemma all_nz_rev A : all_nz A -> all_nz (rev A).
Proof.
  unfold all_nz. intros H. apply forallb_forall. intros x Hx. apply in_rev in Hx.
  rewrite forallb_forall in H. apply H. exact Hx.
Qed.

Lemma all_nz_no_zero A : all_nz A -> existsb (fun b => b =? 0) A = false.
Proof.
  unfold all_nz. induction A as [|a A IH]; cbn [forallb existsb]; intros H; [reflexivity|].
  apply andb_true_iff in H as [Ha HA]. unfold nzb in Ha. apply negb_true_iff in Ha. rewrite Ha. apply IH. exact HA.
Qed.

(* ---------- list helpers ---------- *)
Lemma firstn_exact {A} (X Y : list A) n : n = length X -> firstn n (X ++ Y) = X.
Proof. intros ->. rewrite firstn_app, Nat.sub_diag, firstn_all. cbn [firstn]. apply app_nil_r. Qed.

Lemma skipn_exact {A} (X Y : list A) n : n = length X -> skipn n (X ++ Y) = Y.
Proof. intros ->. rewrite skipn_app, Nat.sub_diag, skipn_all. reflexivity. Qed.

Lemma skipn_repeat_app {A} (a : A) k n Y : (k <= n)%nat -> skipn k (repeat a n ++ Y) = repeat a (n - k) ++ Y.
Proof.
  intros H. rewrite skipn_app, skipn_repeat, repeat_length.
  replace (k - n)%nat with O by lia. reflexivity.
Qed.

Lemma encs_cons x l : encs (x :: l) = enc x ++ encs l.
Proof. reflexivity. Qed.

(* ---------- one rotation at a relay hop ---------- *)
Lemma rotate_mid f A B z r extra :
  label_ok f = true -> label_ok r = true -> all_nz A -> all_nz B ->
  (esize r <= z + esize f)%nat ->
  rotate (enc f ++ A ++ 0 :: B ++ repeat 0 z) extra r =
  Ok (f, A ++ 0 :: B ++ rev (enc r) ++ repeat 0 (z + esize f - esize r), extra).
Proof.
  intros Hf Hr HA HB Hroom.
  destruct (label_ok_lt _ Hf) as [Hf0 Hf1]. destruct (label_ok_lt _ Hr) as [Hr0 Hr1].
  pose proof (esize_pos f) as Hfp. pose proof (esize_pos r) as Hrp.
  unfold rotate. rewrite uvarint_enc by assumption.
  replace (Z.of_nat (esize f) =? 0)%Z with false by (symmetry; apply Z.eqb_neq; lia).
  replace (Z.of_nat (esize f) <? 0)%Z with false by (symmetry; apply Z.ltb_ge; lia).
  rewrite Nat2Z.id.
  rewrite (skipn_exact (enc f)) by (symmetry; apply enc_length; assumption).
  (* the shifted block *)
  assert (Hb1 : (A ++ 0 :: B ++ repeat 0 z) ++ repeat 0 (esize f)
                = (A ++ 0 :: B) ++ 0 :: repeat 0 (z + esize f - 1)).
  { rewrite <- !app_assoc. cbn [app]. f_equal. f_equal. rewrite <- app_assoc. f_equal.
    rewrite repeat_app_plus. replace (z + esize f)%nat with (S (z + esize f - 1)) at 1 by lia. reflexivity. }
  rewrite Hb1.
  replace (f =? 0) with false by (symmetry; apply N.eqb_neq; lia).
  assert (Hslot : find_slot false ((A ++ 0 :: B) ++ 0 :: repeat 0 (z + esize f - 1)) = length (A ++ 0 :: B)).
  { unfold find_slot. rewrite <- app_assoc. cbn [app].
    rewrite find_slot_two_zeros by assumption. rewrite app_length. cbn [length]. lia. }
  rewrite Hslot.
  assert (Hlab : length (rev (enc r)) = esize r) by (rewrite rev_length; apply enc_length; assumption).
  rewrite Hlab.
  assert (Hlen : length (enc f ++ A ++ 0 :: B ++ repeat 0 z) = Nat.add (Nat.add (esize f) (length (A ++ 0 :: B))) z).
  { repeat (rewrite app_length || (cbn [length]) || rewrite repeat_length). rewrite enc_length by assumption. lia. }
  rewrite Hlen.
  match goal with |- context [Nat.leb ?a ?b] => replace (Nat.leb a b) with true by (symmetry; apply Nat.leb_le; lia) end.
  rewrite all_nz_no_zero by (apply all_nz_rev, enc_nonzero; assumption).
  rewrite andb_false_r.
  rewrite <- app_assoc. rewrite write_at_app. rewrite Hlab.
  replace (0 :: repeat 0 (z + esize f - 1)) with (repeat 0 (z + esize f)) by
    (replace (z + esize f)%nat with (S (z + esize f - 1)) at 1 by lia; reflexivity).
  rewrite skipn_repeat_app by lia.
  replace (f mod 65536) with f by (symmetry; apply N.mod_small; assumption).
  assert (Hall : (A ++ 0 :: B) ++ rev (enc r) ++ repeat 0 (z + esize f - esize r) ++ extra
               = ((A ++ 0 :: B) ++ rev (enc r) ++ repeat 0 (z + esize f - esize r)) ++ extra)
    by (rewrite <- !app_assoc; reflexivity).
  rewrite Hall.
  rewrite firstn_exact, skipn_exact.
  - rewrite <- !app_assoc. reflexivity.
  - rewrite !app_length, Hlab, repeat_length. lia.
  - rewrite !app_length, Hlab, repeat_length. lia.
Qed.

Lemma uvarint_zero t : uvarint (0 :: t) = (0, 1%Z).
Proof.
  assert (H : trunc64 (N.lor 0 (N.shiftl 0 0)) = 0) by (vm_compute; reflexivity).
  unfold uvarint. cbn [uvarint_go Nat.eqb]. 
  replace (0 <? 128) with true by reflexivity. cbn [andb]. rewrite H. reflexivity.
Qed.

Lemma enc_zero : enc 0 = [0].
Proof. reflexivity. Qed.

(* rotation at the origin: return label 0, nothing visible changes but the shift *)
Lemma rotate_first f A z extra :
  label_ok f = true -> all_nz A ->
  rotate (enc f ++ A ++ repeat 0 z) extra 0 = Ok (f, A ++ repeat 0 (z + esize f), extra).
Proof.
  intros Hf HA. destruct (label_ok_lt _ Hf) as [Hf0 Hf1]. pose proof (esize_pos f) as Hfp.
  unfold rotate. rewrite uvarint_enc by assumption.
  replace (Z.of_nat (esize f) =? 0)%Z with false by (symmetry; apply Z.eqb_neq; lia).
  replace (Z.of_nat (esize f) <? 0)%Z with false by (symmetry; apply Z.ltb_ge; lia).
  rewrite Nat2Z.id.
  rewrite (skipn_exact (enc f)) by (symmetry; apply enc_length; assumption).
  replace (f =? 0) with false by (symmetry; apply N.eqb_neq; lia).
  replace (f mod 65536) with f by (symmetry; apply N.mod_small; assumption).
  rewrite enc_zero. cbn [rev app length]. replace (0 <? 0) with false by reflexivity. cbn [andb].
  rewrite <- app_assoc, repeat_app_plus.
  assert (Hlen : length (enc f ++ A ++ repeat 0 z) = Nat.add (Nat.add (esize f) (length A)) z).
  { repeat (rewrite app_length || rewrite repeat_length). rewrite enc_length by assumption. lia. }
  rewrite Hlen.
  destruct (z + esize f)%nat as [|[|m]] eqn:Hzk; [lia| |].
  - (* exactly one zero after the forward labels: default slot = last byte *)
    cbn [repeat]. unfold find_slot. rewrite find_slot_one_zero_end by assumption.
    rewrite app_length. cbn [length]. replace (length A + 1 - 1)%nat with (length A) by lia.
    match goal with |- context [Nat.leb ?a ?b] => replace (Nat.leb a b) with true by (symmetry; apply Nat.leb_le; lia) end.
    rewrite <- app_assoc. rewrite write_at_app. cbn [length skipn app].
    replace (A ++ 0 :: extra) with ((A ++ [0]) ++ extra) by (rewrite <- app_assoc; reflexivity).
    rewrite firstn_exact, skipn_exact; [reflexivity| |]; rewrite app_length; cbn [length]; lia.
  - (* two or more zeros: slot = second zero *)
    cbn [repeat]. unfold find_slot.
    replace (A ++ 0 :: 0 :: repeat 0 m) with (A ++ 0 :: [] ++ 0 :: repeat 0 m) by reflexivity.
    rewrite find_slot_two_zeros by (assumption || reflexivity). cbn [length app].
    match goal with |- context [Nat.leb ?a ?b] => replace (Nat.leb a b) with true by (symmetry; apply Nat.leb_le; lia) end.
    replace ((A ++ 0 :: 0 :: repeat 0 m) ++ extra) with ((A ++ [0]) ++ 0 :: repeat 0 m ++ extra)
      by (rewrite <- !app_assoc; reflexivity).
    replace (0 + length A + 1 + 0)%nat with (length (A ++ [0])) by (rewrite app_length; cbn [length]; lia).
    rewrite write_at_app. cbn [length skipn app].
    replace ((A ++ [0]) ++ 0 :: repeat 0 m ++ extra) with ((A ++ 0 :: 0 :: repeat 0 m) ++ extra)
      by (rewrite <- !app_assoc; reflexivity).
    rewrite firstn_exact, skipn_exact; [reflexivity| |]; rewrite app_length; cbn [length]; rewrite repeat_length; lia.
Qed.

(* rotation at the destination: reads label 0, writes the last return label *)
Lemma rotate_last B z r extra :
  label_ok r = true -> all_nz B -> (esize r <= z + 1)%nat ->
  rotate (0 :: B ++ repeat 0 z) extra r =
  Ok (0, B ++ rev (enc r) ++ repeat 0 (z + 1 - esize r), extra).
Proof.
  intros Hr HB Hroom. destruct (label_ok_lt _ Hr) as [Hr0 Hr1]. pose proof (esize_pos r) as Hrp.
  unfold rotate. rewrite uvarint_zero.
  replace (1 =? 0)%Z with false by reflexivity. replace (1 <? 0)%Z with false by reflexivity.
  replace (Z.to_nat 1) with 1%nat by reflexivity. cbn [skipn repeat].
  replace (0 =? 0) with true by reflexivity.
  rewrite <- app_assoc. replace (repeat 0 z ++ [0]) with (0 :: repeat 0 z)
    by (change [0] with (repeat 0 1); rewrite repeat_app_plus; replace (z + 1)%nat with (S z) by lia; reflexivity).
  unfold find_slot. rewrite find_slot_seen by assumption. cbn [Nat.add].
  assert (Hlab : length (rev (enc r)) = esize r) by (rewrite rev_length; apply enc_length; assumption).
  rewrite Hlab. cbn [length]. rewrite app_length, repeat_length.
  match goal with |- context [Nat.leb ?a ?b] => replace (Nat.leb a b) with true by (symmetry; apply Nat.leb_le; lia) end.
  rewrite all_nz_no_zero by (apply all_nz_rev, enc_nonzero; assumption). rewrite andb_false_r.
  rewrite <- app_assoc. rewrite write_at_app, Hlab.
  replace (0 :: repeat 0 z) with (repeat 0 (S z)) by reflexivity.
  rewrite skipn_repeat_app by lia.
  replace (0 mod 65536) with 0 by reflexivity.
  replace (B ++ rev (enc r) ++ repeat 0 (S z - esize r) ++ extra)
    with ((B ++ rev (enc r) ++ repeat 0 (S z - esize r)) ++ extra) by (rewrite <- !app_assoc; reflexivity).
  rewrite firstn_exact, skipn_exact.
  - replace (z + 1 - esize r)%nat with (S z - esize r)%nat by lia. reflexivity.
  - rewrite !app_length, Hlab, repeat_length. lia.
  - rewrite !app_length, Hlab, repeat_length. lia.
Qed.

(* ---------- the whole forward traversal ---------- *)
Definition rencs (l : list N) : list N := concat (map (fun x => rev (enc x)) l).

Definition labels_ok (l : list N) : Prop := forallb label_ok l = true.

Lemma encs_nz l : labels_ok l -> all_nz (encs l).
Proof.
  unfold labels_ok. induction l as [|x l IH]; cbn [forallb]; intros H; [reflexivity|].
  apply andb_true_iff in H as [Hx Hl]. rewrite encs_cons. apply all_nz_app; [apply enc_nonzero; exact Hx|apply IH; exact Hl].
Qed.

Lemma rencs_nz l : labels_ok l -> all_nz (rencs l).
Proof.
  unfold labels_ok, rencs. induction l as [|x l IH]; cbn [forallb map concat]; intros H; [reflexivity|].
  apply andb_true_iff in H as [Hx Hl]. apply all_nz_app; [apply all_nz_rev, enc_nonzero; exact Hx|apply IH; exact Hl].
Qed.

Definition lenl (l : list N) : nat := sum_nat (map esize l).

Lemma encs_length l : labels_ok l -> length (encs l) = lenl l.
Proof.
  unfold labels_ok, lenl. induction l as [|x l IH]; cbn [forallb map sum_nat]; intros H; [reflexivity|].
  apply andb_true_iff in H as [Hx Hl]. rewrite encs_cons, app_length, IH by assumption.
  rewrite enc_length by (apply label_ok_lt in Hx; tauto). reflexivity.
Qed.

Lemma rencs_length l : labels_ok l -> length (rencs l) = lenl l.
Proof.
  unfold labels_ok, lenl, rencs. induction l as [|x l IH]; cbn [forallb map sum_nat concat]; intros H; [reflexivity|].
  apply andb_true_iff in H as [Hx Hl]. rewrite app_length, rev_length, IH by assumption.
  rewrite enc_length by (apply label_ok_lt in Hx; tauto). reflexivity.
Qed.

Lemma rencs_app a b : rencs (a ++ b) = rencs a ++ rencs b.
Proof. unfold rencs. rewrite map_app, concat_app. reflexivity. Qed.

(* room Frest Rrest z: with z slack zeros now, every remaining rotation finds room *)
Fixpoint room (Frest Rrest : list N) (z : nat) : Prop :=
  match Frest, Rrest with
  | f :: Ft, r :: Rt => (esize r <= z + esize f)%nat /\ room Ft Rt (z + esize f - esize r)
  | [], [r] => (esize r <= z + 1)%nat
  | _, _ => False
  end.

(* slack after the remaining traversal *)
Fixpoint final_slack (Frest Rrest : list N) (z : nat) : nat :=
  match Frest, Rrest with
  | f :: Ft, r :: Rt => final_slack Ft Rt (z + esize f - esize r)
  | [], [r] => (z + 1 - esize r)%nat
  | _, _ => z
  end.

Lemma traverse_mid : forall Frest Rrest B z extra,
  labels_ok Frest -> labels_ok Rrest -> all_nz B -> room Frest Rrest z ->
  traverse (encs Frest ++ 0 :: B ++ repeat 0 z) extra Rrest =
  Ok (Frest ++ [0], B ++ rencs Rrest ++ repeat 0 (final_slack Frest Rrest z), extra).
Proof.
  induction Frest as [|f Ft IH]; intros Rrest B z extra HF HR HB Hroom.
  - destruct Rrest as [|r [|r' Rt]]; cbn [room] in Hroom; try contradiction.
    unfold labels_ok in HR. cbn [forallb] in HR. apply andb_true_iff in HR as [Hr _].
    cbn [encs map concat app traverse]. rewrite rotate_last by assumption. cbn [bind traverse].
    cbn [final_slack rencs map concat]. rewrite app_nil_r. reflexivity.
  - destruct Rrest as [|r Rt]; cbn [room] in Hroom; [contradiction|]. destruct Hroom as [Hr1 Hroom].
    unfold labels_ok in HF, HR. cbn [forallb] in HF, HR.
    apply andb_true_iff in HF as [Hf HFt]. apply andb_true_iff in HR as [Hr HRt].
    rewrite encs_cons, <- app_assoc. cbn [traverse].
    rewrite rotate_mid; [|assumption|assumption|apply encs_nz; exact HFt|assumption|assumption].
    cbn [bind].
    replace (encs Ft ++ 0 :: B ++ rev (enc r) ++ repeat 0 (z + esize f - esize r))
      with (encs Ft ++ 0 :: (B ++ rev (enc r)) ++ repeat 0 (z + esize f - esize r))
      by (rewrite <- app_assoc; reflexivity).
    rewrite IH; [|assumption|assumption|apply all_nz_app; [assumption|apply all_nz_rev, enc_nonzero; assumption]|assumption].
    cbn [bind final_slack]. f_equal. f_equal. f_equal.
    change (r :: Rt) with ([r] ++ Rt). rewrite rencs_app. cbn [rencs map concat]. rewrite app_nil_r.
    rewrite <- !app_assoc. reflexivity.
Qed.

(* the complete traversal of a valid path, from the built forward block *)
Lemma traverse_all f0 Ft R z extra :
  labels_ok (f0 :: Ft) -> labels_ok R -> room Ft R (z + esize f0 - 1) ->
  traverse (encs (f0 :: Ft) ++ repeat 0 z) extra (0 :: R) =
  Ok ((f0 :: Ft) ++ [0], rencs R ++ repeat 0 (final_slack Ft R (z + esize f0 - 1)), extra).
Proof.
  intros HF HR Hroom. unfold labels_ok in HF. cbn [forallb] in HF. apply andb_true_iff in HF as [Hf HFt].
  pose proof (esize_pos f0) as Hp.
  rewrite encs_cons, <- app_assoc. cbn [traverse].
  rewrite rotate_first; [|assumption|apply encs_nz; exact HFt]. cbn [bind].
  replace (repeat 0 (z + esize f0)) with (0 :: [] ++ repeat 0 (z + esize f0 - 1))
    by (replace (z + esize f0)%nat with (S (z + esize f0 - 1)) at 2 by lia; reflexivity).
  rewrite traverse_mid; [|assumption|assumption|reflexivity|assumption].
  cbn [bind app]. reflexivity.
Qed.

(* ---------- from CalculateBlockSize to [room] ---------- *)
Lemma sum_nat_app a b : sum_nat (a ++ b) = (sum_nat a + sum_nat b)%nat.
Proof. induction a as [|x a IH]; cbn [app sum_nat]; [reflexivity|]. rewrite IH. lia. Qed.

Lemma lenl_app a b : lenl (a ++ b) = (lenl a + lenl b)%nat.
Proof. unfold lenl. rewrite map_app. apply sum_nat_app. Qed.

Lemma lenl_cons x l : lenl (x :: l) = (esize x + lenl l)%nat.
Proof. reflexivity. Qed.

Lemma max_list_ge l x : In x l -> (x <= max_list l)%nat.
Proof. induction l as [|y l IH]; cbn [In max_list]; [tauto|]. intros [->|H]; [lia|]. specialize (IH H). lia. Qed.

Lemma max_list_attained l : l <> [] -> In (max_list l) l.
Proof.
  induction l as [|y l IH]; [congruence|]. intros _. cbn [max_list].
  destruct l as [|y' l']; [cbn [max_list]; left; lia|].
  assert (Hne : y' :: l' <> []) by discriminate. specialize (IH Hne).
  destruct (Nat.max_spec y (max_list (y' :: l'))) as [[_ ->]|[_ ->]]; [right; exact IH|left; reflexivity].
Qed.

Lemma room_from_bound : forall Frest Rrest done z total,
  length Rrest = S (length Frest) ->
  total = (lenl Frest + 1 + done + z)%nat ->
  (forall k, (1 <= k <= length Frest)%nat ->
     (lenl (skipn k Frest) + 1 + done + lenl (firstn k Rrest) <= total)%nat) ->
  (done + lenl Rrest <= total)%nat ->
  room Frest Rrest z.
Proof.
  induction Frest as [|f Ft IH]; intros Rrest done z total Hlen Htot Hk Hfin.
  - destruct Rrest as [|r [|? ?]]; cbn [length] in Hlen; try discriminate.
    cbn [room]. unfold lenl in *. cbn [map sum_nat] in *. lia.
  - destruct Rrest as [|r Rt]; cbn [length] in Hlen; [discriminate|]. cbn [room].
    assert (H1 : (esize r <= z + esize f)%nat).
    { specialize (Hk 1%nat). cbn [length skipn firstn] in Hk.
      rewrite lenl_cons in Htot. unfold lenl at 2 in Hk. cbn [map sum_nat] in Hk. lia. }
    split; [exact H1|].
    apply (IH Rt (done + esize r)%nat (z + esize f - esize r)%nat total).
    + lia.
    + rewrite lenl_cons in Htot. lia.
    + intros k Hkr. specialize (Hk (S k)). cbn [length skipn firstn] in Hk.
      rewrite lenl_cons in Hk. lia.
    + rewrite lenl_cons in Hfin. lia.
Qed.

Lemma final_slack_spec : forall Frest Rrest z, room Frest Rrest z ->
  (final_slack Frest Rrest z + lenl Rrest = lenl Frest + 1 + z)%nat.
Proof.
  induction Frest as [|f Ft IH]; intros Rrest z H.
  - destruct Rrest as [|r [|? ?]]; cbn [room] in H; try contradiction.
    cbn [final_slack]. unfold lenl. cbn [map sum_nat]. lia.
  - destruct Rrest as [|r Rt]; cbn [room] in H; [contradiction|]. destruct H as [H1 H2].
    cbn [final_slack]. rewrite !lenl_cons. specialize (IH _ _ H2). lia.
Qed.

(* windows of the size simulation for a valid path *)
Lemma window_0 A B m : length A = m -> window (A ++ 1%nat :: B) m 0 = sum_nat A.
Proof. intros H. unfold window. cbn [skipn]. rewrite firstn_exact by (symmetry; exact H). reflexivity. Qed.

Lemma window_last A B m : length A = m -> length B = m ->
  window (A ++ 1%nat :: B) m (m + 1) = sum_nat B.
Proof.
  intros HA HB. unfold window.
  replace (A ++ 1%nat :: B) with ((A ++ [1%nat]) ++ B) by (rewrite <- app_assoc; reflexivity).
  rewrite skipn_exact by (rewrite app_length; cbn [length]; lia).
  rewrite firstn_all2 by lia. reflexivity.
Qed.

Lemma window_mid A B m i : length A = m -> length B = m -> (1 <= i <= m)%nat ->
  window (A ++ 1%nat :: B) m i = (sum_nat (skipn i A) + 1 + sum_nat (firstn (i - 1) B))%nat.
Proof.
  intros HA HB Hi. unfold window.
  rewrite skipn_app. replace (i - length A)%nat with O by lia. cbn [skipn].
  rewrite firstn_app, skipn_length.
  rewrite (firstn_all2 (n := m)) by (rewrite skipn_length; lia).
  replace (m - (length A - i))%nat with (S (i - 1)) by lia. cbn [firstn].
  rewrite sum_nat_app. cbn [sum_nat]. lia.
Qed.

(* structure of mk_hops *)
Lemma combine_fst_snd {X Y} : forall (a : list X) (b : list Y), length a = length b ->
  map fst (combine a b) = a /\ map snd (combine a b) = b.
Proof.
  induction a as [|x a IH]; intros [|y b] H; cbn [length] in H; try discriminate; cbn [combine map fst snd].
  - split; reflexivity.
  - destruct (IH b) as [H1 H2]; [lia|]. rewrite H1, H2. split; reflexivity.
Qed.

Lemma last_map {X Y} (g : X -> Y) : forall (l : list X) d, last (map g l) (g d) = g (last l d).
Proof. induction l as [|x [|y l] IH]; intros d; cbn [map last] in *; try reflexivity. apply IH. Qed.

Lemma mk_hops_length F R : length F = length R -> length (mk_hops F R) = S (length F).
Proof.
  intros H. unfold mk_hops. rewrite combine_length, app_length. cbn [length]. lia.
Qed.

Lemma mk_hops_fst F R : length F = length R -> map fst (mk_hops F R) = F ++ [0].
Proof. intros H. apply combine_fst_snd. rewrite app_length. cbn [length]. lia. Qed.

Lemma mk_hops_snd F R : length F = length R -> map snd (mk_hops F R) = 0 :: R.
Proof. intros H. apply combine_fst_snd. rewrite app_length. cbn [length]. lia. Qed.

Lemma size_sim_mk_hops F R : length F = length R ->
  size_sim (mk_hops F R) = map esize F ++ 1%nat :: map esize R.
Proof.
  intros H. unfold size_sim. rewrite mk_hops_length by assumption.
  replace (S (length F) - 1)%nat with (length F) by lia.
  rewrite <- (map_map fst esize), <- (map_map snd esize).
  rewrite <- firstn_map, mk_hops_fst, mk_hops_snd by assumption.
  rewrite firstn_exact by reflexivity. reflexivity.
Qed.

Lemma mk_hops_last F R : length F = length R -> fst (last (mk_hops F R) (0, 0)) = 0.
Proof.
  intros H. change 0 with (fst (0, 0)) at 3. rewrite <- (last_map fst).
  rewrite mk_hops_fst by assumption. cbn [fst]. apply last_last.
Qed.

Lemma calc_size_mk_hops F R sz :
  length F = length R -> F <> [] ->
  calc_size (mk_hops F R) = Ok sz ->
  sz = max_list (map (window (map esize F ++ 1%nat :: map esize R) (length F)) (seq 0 (length F + 2))) /\ (sz <= 255)%nat.
Proof.
  intros Hlen Hne H. unfold calc_size in H.
  destruct (mk_hops F R) as [|h0 hs] eqn:Hh.
  { apply (f_equal (@length _)) in Hh. rewrite mk_hops_length in Hh by assumption. discriminate. }
  assert (Hsnd : snd h0 = 0).
  { pose proof (mk_hops_snd F R Hlen) as Hs. rewrite Hh in Hs. cbn [map] in Hs. inversion Hs. reflexivity. }
  rewrite Hsnd in H. rewrite <- Hh in H. rewrite mk_hops_last in H by assumption.
  cbn [N.eqb andb negb] in H. replace (0 =? 0) with true in H by reflexivity. cbn [andb negb] in H.
  rewrite size_sim_mk_hops, mk_hops_length in H by assumption.
  replace (S (length F) - 1)%nat with (length F) in H by lia.
  replace (S (length F) + 1)%nat with (length F + 2)%nat in H by lia.
  destruct (Nat.ltb_spec 255 (max_list (map (window (map esize F ++ 1%nat :: map esize R) (length F)) (seq 0 (length F + 2)))));
    inversion H; subst. split; [reflexivity|lia].
Qed.

Lemma lenl_skipn l k : lenl (skipn k l) = sum_nat (skipn k (map esize l)).
Proof. unfold lenl. rewrite skipn_map. reflexivity. Qed.
Lemma lenl_firstn l k : lenl (firstn k l) = sum_nat (firstn k (map esize l)).
Proof. unfold lenl. rewrite firstn_map. reflexivity. Qed.

Lemma calc_size_room f0 Ft R sz :
  length (f0 :: Ft) = length R ->
  calc_size (mk_hops (f0 :: Ft) R) = Ok sz ->
  (lenl (f0 :: Ft) <= sz)%nat /\ (lenl R <= sz)%nat /\ (sz <= 255)%nat /\
  room Ft R (sz - lenl (f0 :: Ft) + esize f0 - 1) /\
  (exists i, (i <= length R + 1)%nat /\
     window (map esize (f0 :: Ft) ++ 1%nat :: map esize R) (length R) i = sz).
Proof.
  intros Hlen H. apply calc_size_mk_hops in H; [|assumption|discriminate]. destruct H as [HS H255].
  set (A := map esize (f0 :: Ft)) in *. set (B := map esize R) in *. set (m := length (f0 :: Ft)) in *.
  assert (HA : length A = m) by (unfold A; apply map_length).
  assert (HB : length B = m) by (unfold B; rewrite map_length; lia).
  assert (Hwin : forall i, (i <= m + 1)%nat -> (window (A ++ 1%nat :: B) m i <= sz)%nat).
  { intros i Hi. rewrite HS. apply max_list_ge. apply in_map. apply in_seq. lia. }
  assert (H0 : (lenl (f0 :: Ft) <= sz)%nat).
  { specialize (Hwin 0%nat). rewrite window_0 in Hwin by assumption. apply Hwin. lia. }
  assert (Hn : (lenl R <= sz)%nat).
  { specialize (Hwin (m + 1)%nat). rewrite window_last in Hwin by assumption. apply Hwin. lia. }
  split; [exact H0|]. split; [exact Hn|]. split; [exact H255|]. split.
  - pose proof (esize_pos f0) as Hp. rewrite lenl_cons in *.
    apply (room_from_bound Ft R 0%nat _ sz).
    + unfold m in Hlen. cbn [length] in Hlen. lia.
    + lia.
    + intros k Hk. specialize (Hwin (S k)).
      rewrite window_mid in Hwin by (try assumption; unfold m; cbn [length]; lia).
      unfold A in Hwin. cbn [map skipn] in Hwin. replace (S k - 1)%nat with k in Hwin by lia.
      rewrite lenl_skipn, lenl_firstn. fold B.
      assert (S k <= m + 1)%nat by (unfold m; cbn [length]; lia). specialize (Hwin H). lia.
    + lia.
  - assert (Hin : In sz (map (window (A ++ 1%nat :: B) m) (seq 0 (m + 2)))).
    { rewrite HS. apply max_list_attained. replace (m + 2)%nat with (S (m + 1)) by lia. cbn [seq map]. discriminate. }
    apply in_map_iff in Hin as (i & Hi & Hseq). apply in_seq in Hseq. exists i. split; [lia|].
    replace (length R) with m by (unfold m; exact Hlen). exact Hi.
Qed.

(* ---------- windows bound => room (shared by the forward and the mirrored path) ---------- *)
Lemma room_of_windows f0 Ft R sz :
  length (f0 :: Ft) = length R ->
  (forall i, (i <= length R + 1)%nat ->
     (window (map esize (f0 :: Ft) ++ 1%nat :: map esize R) (length R) i <= sz)%nat) ->
  (lenl (f0 :: Ft) <= sz)%nat /\ (lenl R <= sz)%nat /\
  room Ft R (sz - lenl (f0 :: Ft) + esize f0 - 1).
Proof.
  intros Hlen Hwin.
  set (A := map esize (f0 :: Ft)) in *. set (B := map esize R) in *.
  assert (HA : length A = length R) by (unfold A; rewrite map_length; exact Hlen).
  assert (HB : length B = length R) by (unfold B; apply map_length).
  assert (H0 : (lenl (f0 :: Ft) <= sz)%nat).
  { specialize (Hwin 0%nat). rewrite window_0 in Hwin by assumption. apply Hwin. lia. }
  assert (Hn : (lenl R <= sz)%nat).
  { specialize (Hwin (length R + 1)%nat). rewrite window_last in Hwin by assumption. apply Hwin. lia. }
  split; [exact H0|]. split; [exact Hn|].
  pose proof (esize_pos f0) as Hp. rewrite lenl_cons in *. cbn [length] in Hlen.
  apply (room_from_bound Ft R 0%nat _ sz).
  - lia.
  - lia.
  - intros k Hk. specialize (Hwin (S k)).
    rewrite window_mid in Hwin by (try assumption; lia).
    unfold A in Hwin. cbn [map skipn] in Hwin. replace (S k - 1)%nat with k in Hwin by lia.
    rewrite lenl_skipn, lenl_firstn. fold B.
    assert (H : (S k <= length R + 1)%nat) by lia. specialize (Hwin H). lia.
  - lia.
Qed.

(* mirrored windows *)
Lemma sum_nat_rev l : sum_nat (rev l) = sum_nat l.
Proof. induction l as [|x l IH]; cbn [rev sum_nat]; [reflexivity|]. rewrite sum_nat_app. cbn [sum_nat]. lia. Qed.

Lemma window_rev sim m i : (i + m <= length sim)%nat ->
  window (rev sim) m i = window sim m (length sim - m - i).
Proof.
  intros H. unfold window. rewrite skipn_rev, firstn_rev, firstn_length.
  rewrite sum_nat_rev. replace (Nat.min (length sim - i) (length sim)) with (length sim - i)%nat by lia.
  rewrite skipn_firstn_comm. 
  replace (length sim - i - (length sim - i - m))%nat with m by lia.
  replace (length sim - m - i)%nat with (length sim - i - m)%nat by lia. reflexivity.
Qed.

Lemma labels_ok_rev l : labels_ok l -> labels_ok (rev l).
Proof.
  unfold labels_ok. intros H. apply forallb_forall. intros x Hx. apply in_rev in Hx.
  rewrite forallb_forall in H. apply H. exact Hx.
Qed.

Lemma lenl_rev l : lenl (rev l) = lenl l.
Proof. unfold lenl. rewrite map_rev. apply sum_nat_rev. Qed.

Lemma windows_mirror F R sz : length F = length R ->
  (forall i, (i <= length R + 1)%nat ->
     (window (map esize F ++ 1%nat :: map esize R) (length R) i <= sz)%nat) ->
  (forall i, (i <= length (rev F) + 1)%nat ->
     (window (map esize (rev R) ++ 1%nat :: map esize (rev F)) (length (rev F)) i <= sz)%nat).
Proof.
  intros Hlen Hwin i Hi. rewrite rev_length in *.
  set (sim := map esize F ++ 1%nat :: map esize R).
  assert (Hsim : map esize (rev R) ++ 1%nat :: map esize (rev F) = rev sim).
  { unfold sim. rewrite rev_app_distr. cbn [rev]. rewrite <- !map_rev, <- app_assoc. reflexivity. }
  assert (Hl : length sim = (length F + length F + 1)%nat).
  { unfold sim. rewrite app_length. cbn [length]. rewrite !map_length. lia. }
  rewrite Hsim, window_rev by lia. rewrite Hl.
  replace (length F) with (length R) at 1 by lia. rewrite Hlen. apply Hwin. lia.
Qed.

(* ---------- blocks built for a valid path ---------- *)
Lemma encs_app a b : encs (a ++ b) = encs a ++ encs b.
Proof. unfold encs. rewrite map_app, concat_app. reflexivity. Qed.

Lemma rev_rencs l : rev (rencs l) = encs (rev l).
Proof.
  induction l as [|x l IH]; [reflexivity|].
  change (rencs (x :: l)) with (rev (enc x) ++ rencs l).
  rewrite rev_app_distr, rev_involutive, IH. cbn [rev]. rewrite encs_app. cbn [encs map concat].
  rewrite app_nil_r. reflexivity.
Qed.

Lemma rev_repeat0 k : rev (repeat 0 k) = repeat 0 k.
Proof.
  induction k as [|k IH]; [reflexivity|]. cbn [repeat rev]. rewrite IH.
  change [0] with (repeat 0 1). rewrite repeat_app_plus. replace (k + 1)%nat with (S k) by lia. reflexivity.
Qed.

Lemma drop_zeros_repeat k Y : drop_zeros (repeat 0 k ++ Y) = drop_zeros Y.
Proof. induction k as [|k IH]; [reflexivity|]. cbn [repeat app drop_zeros]. rewrite N.eqb_refl. exact IH. Qed.

Lemma drop_zeros_nz Y : all_nz Y -> drop_zeros Y = Y.
Proof.
  destruct Y as [|y Y]; [reflexivity|]. unfold all_nz. cbn [forallb drop_zeros]. intros H.
  apply andb_true_iff in H as [Hy _]. unfold nzb in Hy. apply negb_true_iff in Hy. rewrite Hy. reflexivity.
Qed.

Lemma transform_rencs R k : labels_ok R -> transform (rencs R ++ repeat 0 k) = encs (rev R) ++ repeat 0 k.
Proof.
  intros HR. unfold transform. rewrite rev_app_distr, rev_repeat0, rev_rencs, drop_zeros_repeat.
  rewrite drop_zeros_nz by (apply encs_nz, labels_ok_rev; exact HR).
  rewrite app_length, repeat_length. f_equal. f_equal. lia.
Qed.

Lemma mk_hops_fwd_labels F R : length F = length R -> fwd_labels (mk_hops F R) = F.
Proof.
  intros H. unfold fwd_labels. rewrite mk_hops_length by assumption.
  replace (S (length F) - 1)%nat with (length F) by lia.
  rewrite <- firstn_map, mk_hops_fst by assumption. apply firstn_exact. reflexivity.
Qed.

Lemma mk_hops_ret_labels F R : length F = length R -> ret_labels (mk_hops F R) = rev R.
Proof.
  intros H. unfold ret_labels. rewrite <- skipn_map, mk_hops_snd by assumption. reflexivity.
Qed.

Lemma build_blocks_nonempty hops : hops <> [] ->
  build_blocks hops =
  (do size <- calc_size hops;
   if Nat.leb (length (encs (fwd_labels hops))) size && Nat.leb (length (encs (ret_labels hops))) size
   then Ok (pad (encs (fwd_labels hops)) size, pad (encs (ret_labels hops)) size) else Panic).
Proof. destruct hops; [congruence|reflexivity]. Qed.

Lemma mk_hops_nonempty F R : length F = length R -> mk_hops F R <> [].
Proof. intros H Hh. apply (f_equal (@length _)) in Hh. rewrite mk_hops_length in Hh by assumption. discriminate. Qed.

Lemma build_blocks_mk_hops f0 Ft R sz :
  length (f0 :: Ft) = length R -> labels_ok (f0 :: Ft) -> labels_ok R ->
  calc_size (mk_hops (f0 :: Ft) R) = Ok sz ->
  build_blocks (mk_hops (f0 :: Ft) R) =
  Ok (encs (f0 :: Ft) ++ repeat 0 (sz - lenl (f0 :: Ft)), encs (rev R) ++ repeat 0 (sz - lenl R)).
Proof.
  intros Hlen HF HR Hc. destruct (calc_size_room _ _ _ _ Hlen Hc) as (H0 & Hn & _ & _ & _).
  rewrite build_blocks_nonempty by (apply mk_hops_nonempty; exact Hlen).
  rewrite Hc. cbn [bind].
  rewrite mk_hops_fwd_labels, mk_hops_ret_labels by assumption.
  rewrite !encs_length by (try apply labels_ok_rev; assumption). rewrite lenl_rev.
  replace (Nat.leb (lenl (f0 :: Ft)) sz) with true by (symmetry; apply Nat.leb_le; exact H0).
  replace (Nat.leb (lenl R) sz) with true by (symmetry; apply Nat.leb_le; exact Hn).
  cbn [andb]. unfold pad. rewrite !encs_length by (try apply labels_ok_rev; assumption). rewrite lenl_rev.
  reflexivity.
Qed.

(* ---------- main theorems ---------- *)
Theorem forward_traversal F R sz fb rb extra :
  F <> [] -> length F = length R -> labels_ok F -> labels_ok R ->
  calc_size (mk_hops F R) = Ok sz ->
  build_blocks (mk_hops F R) = Ok (fb, rb) ->
  exists b', traverse fb extra (0 :: R) = Ok (F ++ [0], b', extra) /\
             length b' = length fb /\ transform b' = rb.
Proof.
  intros Hne Hlen HF HR Hc Hb. destruct F as [|f0 Ft]; [congruence|].
  rewrite (build_blocks_mk_hops _ _ _ _ Hlen HF HR Hc) in Hb. inversion Hb; subst fb rb; clear Hb.
  destruct (calc_size_room _ _ _ _ Hlen Hc) as (H0 & Hn & _ & Hroom & _).
  pose proof (esize_pos f0) as Hp.
  eexists. split; [apply traverse_all; assumption|].
  pose proof (final_slack_spec _ _ _ Hroom) as Hfs. rewrite lenl_cons in *.
  split.
  - rewrite !app_length, !repeat_length, rencs_length, encs_length by assumption. rewrite lenl_cons. lia.
  - rewrite transform_rencs by assumption. f_equal. f_equal. lia.
Qed.

Theorem return_traversal F R sz fb rb extra :
  F <> [] -> length F = length R -> labels_ok F -> labels_ok R ->
  calc_size (mk_hops F R) = Ok sz ->
  build_blocks (mk_hops F R) = Ok (fb, rb) ->
  exists b', traverse rb extra (0 :: rev F) = Ok (rev R ++ [0], b', extra) /\
             length b' = length rb /\ transform b' = fb.
Proof.
  intros Hne Hlen HF HR Hc Hb. destruct F as [|f0 Ft]; [congruence|].
  rewrite (build_blocks_mk_hops _ _ _ _ Hlen HF HR Hc) in Hb. inversion Hb; subst fb rb; clear Hb.
  pose proof Hc as Hc'. apply calc_size_mk_hops in Hc'; [|assumption|discriminate]. destruct Hc' as [HS _].
  assert (Hwin : forall i, (i <= length R + 1)%nat ->
     (window (map esize (f0 :: Ft) ++ 1%nat :: map esize R) (length R) i <= sz)%nat).
  { intros i Hi. rewrite HS. rewrite <- Hlen. apply max_list_ge. apply in_map. apply in_seq. lia. }
  pose proof (windows_mirror _ _ _ Hlen Hwin) as Hwin'.
  destruct (rev R) as [|g0 Gt] eqn:HrevR.
  { apply (f_equal (@length _)) in HrevR. rewrite rev_length in HrevR. cbn [length] in *. lia. }
  assert (Hlen' : length (g0 :: Gt) = length (rev (f0 :: Ft))).
  { rewrite <- HrevR, !rev_length. lia. }
  assert (HG : labels_ok (g0 :: Gt)) by (rewrite <- HrevR; apply labels_ok_rev; exact HR).
  assert (HF' : labels_ok (rev (f0 :: Ft))) by (apply labels_ok_rev; exact HF).
  destruct (room_of_windows g0 Gt (rev (f0 :: Ft)) sz Hlen' Hwin') as (H0 & Hn & Hroom).
  pose proof (esize_pos g0) as Hp.
  assert (HlenlG : lenl (g0 :: Gt) = lenl R) by (rewrite <- HrevR; apply lenl_rev).
  rewrite <- HlenlG.
  eexists. split; [apply traverse_all; assumption|].
  pose proof (final_slack_spec _ _ _ Hroom) as Hfs. rewrite lenl_rev in *. rewrite (lenl_cons g0) in *.
  split.
  - rewrite !app_length, !repeat_length, rencs_length, encs_length by assumption. rewrite lenl_rev, (lenl_cons g0). lia.
  - rewrite transform_rencs by assumption. rewrite rev_involutive. f_equal. f_equal. lia.
Qed.

(* ---------- BuildBlocks never panics (any uint16 labels, any number of hops) ---------- *)
Definition u16 (x : N) : Prop := x < 65536.

Lemma encs_length_u16 l : Forall u16 l -> length (encs l) = lenl l.
Proof.
  induction 1 as [|x l Hx Hl IH]; [reflexivity|].
  rewrite encs_cons, app_length, IH, lenl_cons, enc_length by exact Hx. reflexivity.
Qed.

Lemma firstn_In {X} (x : X) : forall n l, In x (firstn n l) -> In x l.
Proof. induction n as [|n IH]; intros [|y l]; cbn [firstn In]; try tauto. intros [->|H]; [left; reflexivity|right; apply IH; exact H]. Qed.
Lemma skipn_In {X} (x : X) : forall n l, In x (skipn n l) -> In x l.
Proof. induction n as [|n IH]; intros [|y l]; cbn [skipn In]; try tauto. intros H. right. apply IH. exact H. Qed.

Lemma size_sim_split hops :
  size_sim hops = map esize (fwd_labels hops) ++ map esize (map snd hops).
Proof. unfold size_sim, fwd_labels. rewrite !map_map. reflexivity. Qed.

Lemma calc_size_bounds hops sz : hops <> [] -> calc_size hops = Ok sz ->
  (lenl (fwd_labels hops) <= sz)%nat /\ (lenl (ret_labels hops) <= sz)%nat /\ (sz <= 255)%nat.
Proof.
  intros Hne H. unfold calc_size in H. destruct hops as [|h0 hs]; [congruence|].
  destruct (negb _); [discriminate|].
  set (hops := h0 :: hs) in *. set (n := length hops) in *.
  set (s := max_list (map (window (size_sim hops) (n - 1)) (seq 0 (n + 1)))) in *.
  destruct (Nat.ltb_spec 255 s); inversion H; subst sz; clear H.
  assert (Hwin : forall i, (i <= n)%nat -> (window (size_sim hops) (n - 1) i <= s)%nat).
  { intros i Hi. apply max_list_ge. apply in_map. apply in_seq. lia. }
  assert (HlenA : length (map esize (fwd_labels hops)) = (n - 1)%nat).
  { unfold fwd_labels. rewrite !map_length, firstn_length. fold n. lia. }
  split; [|split; [|lia]].
  - specialize (Hwin 0%nat). rewrite size_sim_split in Hwin. unfold window in Hwin. cbn [skipn] in Hwin.
    rewrite firstn_exact in Hwin by (symmetry; exact HlenA). apply Hwin. lia.
  - specialize (Hwin n). rewrite size_sim_split in Hwin. unfold window in Hwin.
    rewrite skipn_app, HlenA in Hwin.
    rewrite (skipn_all2 (n := n)) in Hwin by (rewrite HlenA; lia). cbn [app] in Hwin.
    replace (n - (n - 1))%nat with 1%nat in Hwin by (unfold n, hops; cbn [length]; lia).
    rewrite firstn_all2 in Hwin by (rewrite skipn_length, !map_length; fold n; lia).
    unfold ret_labels. rewrite lenl_rev. unfold lenl. rewrite <- skipn_map. apply Hwin. lia.
Qed.

Theorem build_blocks_no_panic hops :
  Forall (fun h => u16 (fst h) /\ u16 (snd h)) hops -> build_blocks hops <> Panic.
Proof.
  intros Hu. destruct hops as [|h0 hs]; [discriminate|].
  rewrite build_blocks_nonempty by discriminate.
  destruct (calc_size (h0 :: hs)) as [sz|e|] eqn:Hc; cbn [bind]; [|discriminate|].
  - assert (Hne : h0 :: hs <> []) by discriminate.
    destruct (calc_size_bounds _ _ Hne Hc) as (H1 & H2 & _).
    assert (Hf : Forall u16 (fwd_labels (h0 :: hs))).
    { unfold fwd_labels. apply Forall_forall. intros x Hx. apply in_map_iff in Hx as (h & <- & Hin).
      apply firstn_In in Hin. rewrite Forall_forall in Hu. apply (Hu h Hin). }
    assert (Hr : Forall u16 (ret_labels (h0 :: hs))).
    { unfold ret_labels. apply Forall_forall. intros x Hx. apply in_rev in Hx. apply in_map_iff in Hx as (h & <- & Hin).
      apply skipn_In in Hin. rewrite Forall_forall in Hu. apply (Hu h Hin). }
    rewrite !encs_length_u16 by assumption.
    replace (Nat.leb (lenl (fwd_labels (h0 :: hs))) sz) with true by (symmetry; apply Nat.leb_le; exact H1).
    replace (Nat.leb (lenl (ret_labels (h0 :: hs))) sz) with true by (symmetry; apply Nat.leb_le; exact H2).
    discriminate.
  - exfalso. unfold calc_size in Hc. destruct (negb _); [discriminate|]. destruct (Nat.ltb _ _); discriminate.
Qed.

(* a path whose labels cannot fit into 255 bytes is refused with an error *)
Theorem too_big_refused hops i :
  hops <> [] -> snd (hd (0,0) hops) = 0 -> fst (last hops (0,0)) = 0 ->
  (i <= length hops)%nat -> (255 < window (size_sim hops) (length hops - 1) i)%nat ->
  build_blocks hops = Err 2.
Proof.
  intros Hne Hh Hl Hi Hw. rewrite build_blocks_nonempty by assumption.
  unfold calc_size. destruct hops as [|h0 hs]; [congruence|]. cbn [hd] in Hh. rewrite Hh, Hl.
  replace (0 =? 0) with true by reflexivity. cbn [andb negb].
  set (n := length (h0 :: hs)) in *.
  assert (Hge : (window (size_sim (h0 :: hs)) (n - 1) i <= max_list (map (window (size_sim (h0 :: hs)) (n - 1)) (seq 0 (n + 1))))%nat).
  { apply max_list_ge. apply in_map. apply in_seq. lia. }
  destruct (Nat.ltb_spec 255 (max_list (map (window (size_sim (h0 :: hs)) (n - 1)) (seq 0 (n + 1))))); [reflexivity|lia].
Qed.

(* the computed size is the maximum of the live lengths: sufficient (every one fits) and
   minimal (one of them is exactly that long) *)
Theorem size_sufficient_minimal F R sz :
  F <> [] -> length F = length R -> calc_size (mk_hops F R) = Ok sz ->
  let live := window (map esize F ++ 1%nat :: map esize R) (length R) in
  (forall i, (i <= length R + 1)%nat -> (live i <= sz)%nat) /\
  (exists i, (i <= length R + 1)%nat /\ live i = sz).
Proof.
  intros Hne Hlen Hc. destruct F as [|f0 Ft]; [congruence|]. cbv zeta. split.
  - pose proof Hc as Hc'. apply calc_size_mk_hops in Hc'; [|assumption|discriminate]. destruct Hc' as [HS _].
    intros i Hi. rewrite HS, <- Hlen. apply max_list_ge. apply in_map. apply in_seq. lia.
  - destruct (calc_size_room _ _ _ _ Hlen Hc) as (_ & _ & _ & _ & Hex). exact Hex.
Qed.

(* ---------- the rotation is confined to the block ---------- *)
Lemma uvarint_go_le buf : forall i x s v n, uvarint_go buf i x s = (v, n) -> (n <= Z.of_nat (i + length buf))%Z.
Proof.
  induction buf as [|b t IH]; intros i x s v n H; cbn [uvarint_go] in H.
  - inversion H. lia.
  - destruct (Nat.eqb i 10); [inversion H; lia|].
    destruct (b <? 128).
    + destruct (Nat.eqb i 9 && (1 <? b)); inversion H; cbn [length]; lia.
    + apply IH in H. cbn [length]. lia.
Qed.

Lemma write_at_within X : forall Y pos v, (pos + length v <= length X)%nat ->
  write_at (X ++ Y) pos v = write_at X pos v ++ Y /\ length (write_at X pos v) = length X.
Proof.
  induction X as [|h t IH]; intros Y pos v Hle.
  - cbn [length] in Hle. assert (pos = O) by lia. assert (v = []) by (destruct v; [reflexivity|cbn in Hle; lia]). subst. split; [destruct Y; reflexivity|reflexivity].
  - destruct pos as [|p].
    + cbn [write_at app]. cbn [Nat.add] in Hle. split.
      * change (h :: t ++ Y) with ((h :: t) ++ Y). rewrite (skipn_app (length v) (h :: t) Y). replace (length v - length (h :: t))%nat with O by lia. cbn [skipn]. rewrite <- app_assoc. reflexivity.
      * rewrite app_length, skipn_length. lia.
    + cbn [write_at app]. cbn [length] in Hle. destruct (IH Y p v) as [E L]; [lia|]. rewrite E. split; [reflexivity|cbn [length]; rewrite L; reflexivity].
Qed.

(* NextRotateSwitchBlock never touches anything outside the block: the bytes that follow it are
   returned unchanged and the block keeps its length *)
Theorem rotate_confined block extra ret next b' e' :
  rotate block extra ret = Ok (next, b', e') -> e' = extra /\ length b' = length block.
Proof.
  unfold rotate. destruct (uvarint block) as [nx n] eqn:Hu.
  destruct (n =? 0)%Z eqn:H0; [discriminate|]. destruct (n <? 0)%Z eqn:Hn; [discriminate|].
  apply Z.eqb_neq in H0. apply Z.ltb_ge in Hn.
  unfold uvarint in Hu. apply uvarint_go_le in Hu. cbn [Nat.add] in Hu.
  set (k := Z.to_nat n). assert (Hk : (k <= length block)%nat) by (subst k; lia).
  set (b1 := skipn k block ++ repeat 0 k).
  assert (Hb1 : length b1 = length block) by (subst b1; rewrite app_length, skipn_length, repeat_length; lia).
  destruct (Nat.leb _ _) eqn:Hle; [|discriminate]. apply Nat.leb_le in Hle.
  destruct ((0 <? ret) && _); [discriminate|].
  intros H. inversion H; subst. clear H.
  destruct (write_at_within b1 extra (find_slot (nx =? 0) b1) (rev (enc ret))) as [E L]; [lia|].
  rewrite E. split.
  - apply skipn_exact. lia.
  - rewrite firstn_exact by lia. lia.
Qed.
