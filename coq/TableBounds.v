(* TableBounds.v — C11: per-destination bounds and persistence of direct-peer routes, for every
   operation sequence.  Routes are the ones the system can produce: a direct-peer route has a path
   of at most two hops (total hops 1), every other route a path of at least three (total hops >= 2)
   — peering.AddLink adds an empty path, the announcement handler [self; hops...; origin] with the
   source "peer" exactly when there are no hop records. *)
From Coq Require Import Permutation.
From Verif Require Import Prelude SwitchLabel Table TableProofs TableSorted.

(* ---------- counting ---------- *)
Definition cnt (f : entry -> bool) (t : list entry) : nat := length (filter f t).

Lemma cnt_app f a b : cnt f (a ++ b) = (cnt f a + cnt f b)%nat.
Proof. unfold cnt. rewrite filter_app, app_length. reflexivity. Qed.
Lemma cnt_cons f x t : cnt f (x :: t) = ((if f x then 1 else 0) + cnt f t)%nat.
Proof. unfold cnt. cbn [filter]. destruct (f x); reflexivity. Qed.
Lemma cnt_perm f a b : Permutation a b -> cnt f a = cnt f b.
Proof.
  intros H. unfold cnt. induction H as [|x a b H IH|x y a|a b c H1 IH1 H2 IH2]; cbn [filter].
  - reflexivity.
  - destruct (f x); cbn [length]; congruence.
  - destruct (f x), (f y); reflexivity.
  - congruence.
Qed.
Lemma cnt_filter_le f g t : (cnt f (filter g t) <= cnt f t)%nat.
Proof.
  induction t as [|x t IH]; [apply le_n|]. cbn [filter]. destruct (g x); rewrite ?cnt_cons; lia.
Qed.
Lemma cnt_le_length f t : (cnt f t <= length t)%nat.
Proof. induction t as [|x t IH]; [apply le_n|]. rewrite cnt_cons. cbn [length]. destruct (f x); lia. Qed.
Lemma cnt_zero f t : (forall x, In x t -> f x = false) -> cnt f t = O.
Proof.
  induction t as [|x t IH]; intros H; [reflexivity|]. rewrite cnt_cons, (H x (or_introl eq_refl)), IH; [reflexivity|].
  intros y Hy. apply H. right. exact Hy.
Qed.
Lemma cnt_all f t : (forall x, In x t -> f x = true) -> cnt f t = length t.
Proof.
  induction t as [|x t IH]; intros H; [reflexivity|]. rewrite cnt_cons, (H x (or_introl eq_refl)), IH; [reflexivity|].
  intros y Hy. apply H. right. exact Hy.
Qed.
Lemma cnt_mono (f g : entry -> bool) t : (forall x, f x = true -> g x = true) -> (cnt f t <= cnt g t)%nat.
Proof.
  intros H. induction t as [|x t IH]; [apply le_n|]. rewrite !cnt_cons.
  destruct (f x) eqn:E; [rewrite (H x E); lia|destruct (g x); lia].
Qed.
Lemma cnt_pos_in f t : (0 < cnt f t)%nat -> exists x, In x t /\ f x = true.
Proof.
  induction t as [|x t IH]; [cbn; lia|]. rewrite cnt_cons. destruct (f x) eqn:E.
  - intros _. exists x. split; [left; reflexivity|exact E].
  - intros H. destruct (IH H) as (y & Hy & Fy). exists y. split; [right; exact Hy|exact Fy].
Qed.

(* insertion sort permutes *)
Lemma insert_by_perm cmp e l : Permutation (insert_by cmp e l) (e :: l).
Proof.
  induction l as [|h t IH]; cbn [insert_by]; [apply Permutation_refl|].
  destruct (cmp e h <? 0)%Z; [apply Permutation_refl|].
  eapply perm_trans; [apply perm_skip; exact IH|apply perm_swap].
Qed.
Lemma sort_by_perm_gen cmp l : forall acc, Permutation (fold_left (fun a e => insert_by cmp e a) l acc) (l ++ acc).
Proof.
  induction l as [|x l IH]; intros acc; cbn [fold_left app]; [apply Permutation_refl|].
  eapply perm_trans; [apply IH|]. eapply perm_trans; [apply Permutation_app_head; apply insert_by_perm|].
  apply Permutation_sym. apply Permutation_middle.
Qed.
Lemma sort_by_perm cmp l : Permutation (sort_by cmp l) l.
Proof. unfold sort_by. rewrite <- (app_nil_r l) at 2. apply sort_by_perm_gen. Qed.

Lemma insert_at_perm {A} (t : list A) i e : Permutation (insert_at t i e) (e :: t).
Proof.
  unfold insert_at. rewrite <- (firstn_skipn i t) at 3. apply Permutation_sym. apply Permutation_middle.
Qed.

(* the list with the element at position i set aside *)
Lemma nth_split_at {A} (t : list A) i x : nth_error t i = Some x -> t = firstn i t ++ x :: skipn (S i) t.
Proof.
  revert i. induction t as [|h t IH]; intros [|i] H; try discriminate.
  - inversion H. reflexivity.
  - cbn [firstn skipn app]. f_equal. apply IH. exact H.
Qed.

Lemma cnt_replace_at f t i x e : nth_error t i = Some x ->
  (cnt f (replace_at t i e) + (if f x then 1 else 0) = cnt f t + (if f e then 1 else 0))%nat.
Proof.
  intros H. unfold replace_at. rewrite (nth_split_at t i x H) at 3.
  rewrite !cnt_app, !cnt_cons. lia.
Qed.

Lemma sort_section_perm t s e : (s <= e)%nat -> Permutation (sort_section t s e) t.
Proof.
  intros Hle. unfold sort_section. rewrite (decomp3 t s e Hle) at 4.
  apply Permutation_app_head. apply Permutation_app_tail. apply sort_by_perm.
Qed.

(* ---------- the classes counted per destination ---------- *)
Definition is_np (d : N) (e : entry) : bool := (e_dst e =? d) && negb (e_source e =? src_peer).
Definition is_p (d : N) (e : entry) : bool := (e_dst e =? d) && (e_source e =? src_peer).
Definition is_d (d : N) (e : entry) : bool := e_dst e =? d.

(* system-producible routes *)
Definition swf (e : entry) : Prop :=
  (e_source e = src_peer -> e_thops e = 1) /\ (e_source e <> src_peer -> 2 <= e_thops e).
Definition tswf (t : list entry) : Prop := forall e, In e t -> swf e.

Definition bounds (t : list entry) : Prop :=
  forall d, (cnt (is_np d) t <= 3)%nat /\ (cnt (is_p d) t <= 1)%nat.

Definition op_ok (o : top) : Prop :=
  match o with
  | TAdd _ e => (length (e_path e) <= 255)%nat /\
                (e_source e = src_peer -> (length (e_path e) <= 2)%nat) /\
                (e_source e <> src_peer -> (3 <= length (e_path e))%nat)
  | _ => True
  end.

Lemma calc_thops_peer p : (length p <= 2)%nat -> calc_thops p = 1.
Proof. unfold calc_thops. destruct (length p) as [|[|[|n]]]; cbn; try reflexivity; lia. Qed.
Lemma calc_thops_np p : (3 <= length p <= 255)%nat -> 2 <= calc_thops p.
Proof.
  unfold calc_thops. destruct (length p) as [|[|n]] eqn:E; try lia. intros H.
  destruct (Nat.leb_spec (S n) 254); lia.
Qed.

(* two equal routes of system-producible shape are both peer routes or both not *)
Lemma route_equals_same_class x e : swf x -> swf e -> route_equals x e = true ->
  (e_source x =? src_peer) = (e_source e =? src_peer).
Proof.
  intros [Xp Xn] [Ep En]. unfold route_equals.
  destruct (e_dst x =? e_dst e); cbn [negb]; [|discriminate].
  destruct (N.eqb_spec (e_source x) src_peer) as [Sx|Sx], (N.eqb_spec (e_source e) src_peer) as [Se|Se]; cbn [andb]; try reflexivity.
  - rewrite (Xp Sx). specialize (En Se). destruct (N.eqb_spec 1 (e_thops e)) as [E|E]; [lia|]. cbn. discriminate.
  - rewrite (Ep Se). specialize (Xn Sx). destruct (N.eqb_spec (e_thops x) 1) as [E|E]; [lia|]. cbn. discriminate.
Qed.

Lemma route_equals_dst x e : route_equals x e = true -> e_dst x = e_dst e.
Proof. unfold route_equals. destruct (N.eqb_spec (e_dst x) (e_dst e)); [auto|discriminate]. Qed.

Lemma peers_route_equal x e : e_dst x = e_dst e -> e_source x = src_peer -> e_source e = src_peer -> route_equals x e = true.
Proof. intros D X E. unfold route_equals. rewrite D, N.eqb_refl, X, E. reflexivity. Qed.

Lemma find_eq_none (f : entry -> bool) : forall l s,
  (fix find_eq (l : list entry) (i : nat) : option nat :=
     match l with [] => None | x :: r => if f x then Some i else find_eq r (S i) end) l s = None ->
  forall x, In x l -> f x = false.
Proof.
  induction l as [|y r IH]; intros s H x Hx; [destruct Hx|]. destruct (f y) eqn:E; [discriminate|].
  destruct Hx as [<-|Hx]; [exact E|]. eapply IH; eassumption.
Qed.

Lemma find_eq_some (f : entry -> bool) : forall l s i,
  (fix find_eq (l : list entry) (i : nat) : option nat :=
     match l with [] => None | x :: r => if f x then Some i else find_eq r (S i) end) l s = Some i ->
  exists x, nth_error l (i - s) = Some x /\ f x = true /\ (s <= i)%nat.
Proof.
  induction l as [|y r IH]; intros s i H; [discriminate|]. destruct (f y) eqn:E.
  - inversion H; subst. exists y. rewrite Nat.sub_diag. auto.
  - destruct (IH _ _ H) as (x & Hn & Fx & Hle). exists x. replace (i - s)%nat with (S (i - S s)) by lia. cbn. auto with arith.
Qed.

Lemma nth_error_firstn' {A} (l : list A) : forall k j, (j < k)%nat -> nth_error (firstn k l) j = nth_error l j.
Proof.
  induction l as [|h l IH]; intros k j H; [rewrite firstn_nil; reflexivity|].
  destruct k as [|k]; [lia|]. destruct j as [|j]; [reflexivity|]. cbn. apply IH. lia.
Qed.
Lemma nth_error_skipn' {A} (t : list A) : forall s j, nth_error (skipn s t) j = nth_error t (s + j).
Proof.
  induction t as [|h t IH]; intros s j; [rewrite skipn_nil; destruct j, s; reflexivity|].
  destruct s as [|s]; [reflexivity|]. cbn [skipn Nat.add nth_error]. apply IH.
Qed.
Lemma nth_error_skipn_firstn {A} (t : list A) s k j : (j < k)%nat ->
  nth_error (firstn k (skipn s t)) j = nth_error t (s + j).
Proof. intros H. rewrite nth_error_firstn' by exact H. apply nth_error_skipn'. Qed.

Lemma sorted_nth t : sorted t -> forall i j a b, (i < j)%nat ->
  nth_error t i = Some a -> nth_error t j = Some b -> sle a b.
Proof.
  intros Hs. induction Hs as [|x t Hs IH Hall]; intros i j a b Hij Ha Hb; [destruct i; discriminate|].
  destruct i as [|i], j as [|j]; try lia.
  - cbn in Ha, Hb. inversion Ha; subst. rewrite Forall_forall in Hall. apply Hall. eapply nth_error_In; eassumption.
  - cbn in Ha, Hb. eapply IH; [|eassumption|eassumption]. lia.
Qed.

Lemma cnt_two f t i j a b : (i < j)%nat -> nth_error t i = Some a -> nth_error t j = Some b ->
  f a = true -> f b = true -> (2 <= cnt f t)%nat.
Proof.
  revert i j. induction t as [|x t IH]; intros i j Hij Ha Hb Fa Fb; [destruct i; discriminate|].
  rewrite cnt_cons. destruct i as [|i], j as [|j]; try lia.
  - cbn in Ha, Hb. inversion Ha; subst. rewrite Fa.
    assert (0 < cnt f t)%nat; [|lia].
    apply nth_error_In in Hb. clear -Hb Fb. induction t as [|y t IH]; [destruct Hb|].
    rewrite cnt_cons. destruct Hb as [->|Hb]; [rewrite Fb; lia|specialize (IH Hb); lia].
  - cbn in Ha, Hb. assert (2 <= cnt f t)%nat by (eapply IH; [|eassumption|eassumption|assumption|assumption]; lia). lia.
Qed.

(* the number of routes to d is the length of d's section *)
Lemma section_count t d s en : sorted t -> twf t -> dst_section t d = (s, en) ->
  cnt (is_d d) t = (en - s)%nat.
Proof.
  intros Hs Hw Hd. destruct (dst_section_spec t d s en Hs Hw Hd) as (Hb & Hlo & Hmid & Hhi).
  rewrite (decomp3 t s en) at 1 by lia. rewrite !cnt_app.
  rewrite (cnt_zero (is_d d) (firstn s t)), (cnt_zero (is_d d) (skipn en t)), (cnt_all (is_d d) (firstn (en - s) (skipn s t))).
  - rewrite firstn_length, skipn_length. lia.
  - intros x Hx. unfold is_d. apply N.eqb_eq. apply Hmid. exact Hx.
  - intros x Hx. unfold is_d. apply N.eqb_neq. specialize (Hhi x Hx). lia.
  - intros x Hx. unfold is_d. apply N.eqb_neq. specialize (Hlo x Hx). lia.
Qed.

Lemma is_np_d d x : is_np d x = true -> is_d d x = true.
Proof. unfold is_np, is_d. intros H. apply andb_true_iff in H. tauto. Qed.
Lemma is_p_d d x : is_p d x = true -> is_d d x = true.
Proof. unfold is_p, is_d. intros H. apply andb_true_iff in H. tauto. Qed.

Lemma class_other d e : e_dst e <> d -> is_np d e = false /\ is_p d e = false.
Proof. intros H. unfold is_np, is_p. destruct (N.eqb_spec (e_dst e) d); [contradiction|]. auto. Qed.

Lemma is_np_peer d e : e_source e = src_peer -> is_np d e = false.
Proof. intros H. unfold is_np. rewrite H, N.eqb_refl. apply andb_false_r. Qed.
Lemma is_p_nonpeer d e : e_source e <> src_peer -> is_p d e = false.
Proof. intros H. unfold is_p. apply N.eqb_neq in H. rewrite H. apply andb_false_r. Qed.

(* ---------- AddRoute keeps the bounds ---------- *)
Theorem add_route_bounds cfg now t e0 t' b :
  sorted t -> tpwf t -> tswf t -> bounds t -> op_ok (TAdd now e0) ->
  add_route cfg now t e0 = Ok (t', b) -> tswf t' /\ bounds t'.
Proof.
  intros Hs Hw Hsw Hb (Hlen & Hpeer & Hnp). unfold add_route.
  destruct (rp_for cfg (e_dst e0)) as [rp|]; [|discriminate].
  destruct (if 0 <? rp_rbits rp then _ else _) as [pa pb].
  repeat match goal with |- context [if ?c then Err _ else _] => destruct c; [discriminate|] end.
  match goal with |- context [match ?c with Ok _ => _ | Err _ => _ | Panic => _ end] => destruct c as [exp2|?|] end; try discriminate.
  destruct (build_blocks (labels_of (e_path e0))); try discriminate.
  set (e := mkEntry (e_dst e0) pa pb (e_nexthop e0) (e_path e0) (e_stub e0) (e_source e0) exp2 (calc_thops (e_path e0)) (calc_tdelay (e_path e0) (e_tdelay e0))).
  assert (Se : swf e).
  { split; cbn [e e_source e_thops]; intros H; [apply calc_thops_peer; auto|apply calc_thops_np; split; auto]. }
  pose proof (tpwf_twf t Hw) as Htw.
  destruct (dst_section t (e_dst e)) as [s en] eqn:Hsec.
  destruct (dst_section_spec t (e_dst e) s en Hs Htw Hsec) as (Hbnd & Hlo & Hmid & Hhi).
  pose proof (section_count t (e_dst e) s en Hs Htw Hsec) as Hcnt.
  (* inserting e *)
  assert (Hins : forall i, (cnt (is_np (e_dst e)) t + (if is_np (e_dst e) e then 1 else 0) <= 3)%nat ->
                           (cnt (is_p (e_dst e)) t + (if is_p (e_dst e) e then 1 else 0) <= 1)%nat ->
                           tswf (insert_at t i e) /\ bounds (insert_at t i e)).
  { intros i H1 H2. split.
    - intros x Hx. apply insert_at_in in Hx. destruct Hx as [<-|Hx]; [exact Se|apply Hsw; exact Hx].
    - intros d. rewrite !(cnt_perm _ _ _ (insert_at_perm t i e)), !cnt_cons.
      destruct (N.eq_dec (e_dst e) d) as [<-|Hne]; [lia|].
      destruct (class_other d e Hne) as [-> ->]. exact (Hb d). }
  (* replacing the entry at position i of the section by e, when both are of the same class *)
  assert (Hrep : forall i x, (s <= i < en)%nat -> nth_error t i = Some x ->
                   (e_source x =? src_peer) = (e_source e =? src_peer) ->
                   tswf (sort_section (replace_at t i e) s en) /\ bounds (sort_section (replace_at t i e) s en)).
  { intros i x Hi Hx Hcl.
    assert (Dx : e_dst x = e_dst e).
    { apply Hmid. apply (nth_error_In _ (i - s)). rewrite nth_error_skipn_firstn by lia.
      replace (s + (i - s))%nat with i by lia. exact Hx. }
    split.
    - intros y Hy. apply sort_section_in in Hy; [|lia]. apply replace_at_in in Hy. destruct Hy as [->|Hy]; [exact Se|apply Hsw; exact Hy].
    - intros d. rewrite !(cnt_perm _ _ _ (sort_section_perm _ s en ltac:(lia))).
      pose proof (cnt_replace_at (is_np d) t i x e Hx) as A. pose proof (cnt_replace_at (is_p d) t i x e Hx) as B.
      assert (is_np d x = is_np d e) as En by (unfold is_np; rewrite Dx, Hcl; reflexivity).
      assert (is_p d x = is_p d e) as Ep by (unfold is_p; rewrite Dx, Hcl; reflexivity).
      rewrite En in A. rewrite Ep in B. destruct (Hb d). lia. }
  destruct (Nat.leb_spec en s) as [Hle|Hgt].
  - (* new destination: no route to it yet *)
    assert (Z0 : cnt (is_d (e_dst e)) t = O) by lia.
    assert (N0 : cnt (is_np (e_dst e)) t = O) by (pose proof (cnt_mono _ _ t (is_np_d (e_dst e))); lia).
    assert (P0 : cnt (is_p (e_dst e)) t = O) by (pose proof (cnt_mono _ _ t (is_p_d (e_dst e))); lia).
    match goal with |- context [if ?c then Ok (t, false) else _] => destruct c end; intros H; inversion H; subst; [split; assumption|].
    apply Hins; [rewrite N0|rewrite P0]; destruct (is_np _ e), (is_p _ e); lia.
  - match goal with |- context [if ?b then Ok (t, false) else _] => destruct b end; [intros H; inversion H; subst; split; assumption|].
    match goal with |- context [match ?f with Some _ => _ | None => _ end] => destruct f as [i|] eqn:Hf end.
    + (* the same route is already there: replaced *)
      intros H. inversion H; subst.
      destruct (find_eq_some _ _ _ _ Hf) as (x & Hx & Req & Hsi).
      pose proof (find_eq_range _ _ _ _ Hf) as Hr. rewrite firstn_length, skipn_length in Hr.
      rewrite nth_error_skipn_firstn in Hx by lia. replace (s + (i - s))%nat with i in Hx by lia.
      apply (Hrep i x); [lia|exact Hx|].
      apply route_equals_same_class; [apply Hsw; eapply nth_error_In; exact Hx|exact Se|exact Req].
    + (* no equal route in the section *)
      pose proof (find_eq_none _ _ _ Hf) as Hnone.
      assert (Pfree : e_source e = src_peer -> cnt (is_p (e_dst e)) t = O).
      { intros Sp. destruct (cnt (is_p (e_dst e)) t) eqn:C; [reflexivity|exfalso].
        destruct (cnt_pos_in (is_p (e_dst e)) t) as (y & Hy & Fy); [lia|].
        unfold is_p in Fy. apply andb_true_iff in Fy. destruct Fy as [Dy Sy]. apply N.eqb_eq in Dy, Sy.
        assert (Hsecy : In y (firstn (en - s) (skipn s t))).
        { rewrite (decomp3 t s en) in Hy by lia. apply in_app_or in Hy. destruct Hy as [Hy|Hy]; [specialize (Hlo y Hy); lia|].
          apply in_app_or in Hy. destruct Hy as [Hy|Hy]; [exact Hy|specialize (Hhi y Hy); lia]. }
        specialize (Hnone y Hsecy). cbv beta in Hnone. rewrite (peers_route_equal y e Dy Sy Sp) in Hnone. discriminate. }
      match goal with |- context [if ?c then Ok (insert_at _ _ _, true) else _] => destruct c eqn:Hc3 end.
      * intros H. inversion H; subst. apply orb_true_iff in Hc3.
        destruct (N.eqb_spec (e_source e) src_peer) as [Sp|Sn].
        -- apply Hins.
           ++ rewrite (is_np_peer _ e Sp). destruct (Hb (e_dst e)). lia.
           ++ rewrite (Pfree Sp). destruct (is_p _ e); lia.
        -- destruct Hc3 as [Hc3|Hc3]; [|first [discriminate Hc3|apply N.eqb_eq in Hc3; contradiction]].
           apply Nat.ltb_lt in Hc3. apply Hins.
           ++ pose proof (cnt_mono _ _ t (is_np_d (e_dst e))). destruct (is_np _ e); lia.
           ++ rewrite (is_p_nonpeer _ e Sn). destruct (Hb (e_dst e)). lia.
      * apply orb_false_iff in Hc3. destruct Hc3 as [Hc3 Hsrc]. apply Nat.ltb_ge in Hc3.
        destruct (nth_error t (s + 2)) as [third|] eqn:Hth; [|discriminate].
        destruct (std_cmp e third <? 0)%Z; intros H; inversion H; subst; [|split; assumption].
        apply (Hrep (s + 2)%nat third); [lia|exact Hth|]. rewrite Hsrc.
        (* the third route of the section is not the peer route: a peer route sorts first *)
        destruct (N.eqb_spec (e_source third) src_peer) as [St|St]; [exfalso|reflexivity].
        destruct (nth_error t s) as [first|] eqn:Hfi; [|apply nth_error_None in Hfi; lia].
        assert (Hin1 : In first (firstn (en - s) (skipn s t))).
        { eapply nth_error_In. rewrite (nth_error_skipn_firstn t s (en - s) 0) by lia. rewrite Nat.add_0_r. exact Hfi. }
        assert (Hin3 : In third (firstn (en - s) (skipn s t))).
        { eapply nth_error_In. rewrite (nth_error_skipn_firstn t s (en - s) 2) by lia. exact Hth. }
        pose proof (Hmid _ Hin1) as D1. pose proof (Hmid _ Hin3) as D3.
        pose proof (sorted_nth t Hs s (s + 2)%nat first third ltac:(lia) Hfi Hth) as Hsle.
        unfold sle in Hsle. apply std_le_iff in Hsle.
        pose proof (Hsw _ (nth_error_In _ _ Hfi)) as [F1 F2]. pose proof (Hsw _ (nth_error_In _ _ Hth)) as [T1 _].
        pose proof (pwf_ewf _ (Hw _ (nth_error_In _ _ Hfi))) as [E1 _].
        assert (e_thops first = 1).
        { rewrite (T1 St) in Hsle. destruct Hsle as [Hsle|[_ [Hsle|[Hsle _]]]]; lia. }
        assert (Sf : e_source first = src_peer).
        { destruct (N.eq_dec (e_source first) src_peer) as [E|E]; [exact E|specialize (F2 E); lia]. }
        assert (2 <= cnt (is_p (e_dst e)) t)%nat.
        { apply (cnt_two _ t s (s + 2)%nat first third); [lia|exact Hfi|exact Hth| |]; unfold is_p.
          - rewrite D1, N.eqb_refl, Sf. reflexivity.
          - rewrite D3, N.eqb_refl, St. reflexivity. }
        destruct (Hb (e_dst e)). lia.
Qed.

(* ---------- removals and cleanup only remove ---------- *)
Lemma trim_cnt_le f cfg l : forall cur cm seen, (cnt f (trim cfg l cur cm seen) <= cnt f l)%nat.
Proof.
  induction l as [|h t IH]; intros cur cm seen; cbn [trim]; [apply le_n|].
  destruct (match cur with Some (pa, pb) => (pa =? e_paddr h) && (pb =? e_pbits h) | None => false end);
    [|destruct (rp_for cfg (e_dst h))];
    match goal with |- context [Nat.ltb ?a ?b && ?c] => destruct (Nat.ltb a b && c) end;
    rewrite ?cnt_cons;
    match goal with |- context [trim cfg t ?a ?b ?c] => specialize (IH a b c) end; lia.
Qed.

Theorem clean_bounds cfg self now t : tswf t -> bounds t ->
  tswf (clean cfg self now t) /\ bounds (clean cfg self now t).
Proof.
  intros Hsw Hb. split.
  - intros x Hx. apply Hsw. eapply clean_sub. exact Hx.
  - intros d. unfold clean. rewrite !(cnt_perm _ _ _ (sort_by_perm std_cmp _)).
    pose proof (trim_cnt_le (is_np d) cfg (sort_by (clean_cmp self) (filter (fun e => negb (negb (e_source e =? src_peer) && (e_expires e <? now)%Z)) t)) None O O) as A.
    pose proof (trim_cnt_le (is_p d) cfg (sort_by (clean_cmp self) (filter (fun e => negb (negb (e_source e =? src_peer) && (e_expires e <? now)%Z)) t)) None O O) as B.
    rewrite (cnt_perm _ _ _ (sort_by_perm (clean_cmp self) _)) in A. rewrite (cnt_perm _ _ _ (sort_by_perm (clean_cmp self) _)) in B.
    pose proof (cnt_filter_le (is_np d) (fun e => negb (negb (e_source e =? src_peer) && (e_expires e <? now)%Z)) t).
    pose proof (cnt_filter_le (is_p d) (fun e => negb (negb (e_source e =? src_peer) && (e_expires e <? now)%Z)) t).
    destruct (Hb d). lia.
Qed.

Lemma filter_bounds g t : tswf t -> bounds t -> tswf (filter g t) /\ bounds (filter g t).
Proof.
  intros Hsw Hb. split.
  - intros x Hx. apply filter_In in Hx. apply Hsw. tauto.
  - intros d. pose proof (cnt_filter_le (is_np d) g t). pose proof (cnt_filter_le (is_p d) g t). destruct (Hb d). lia.
Qed.

(* ---------- every operation, every history ---------- *)
Definition tinv (t : list entry) : Prop := sorted t /\ tpwf t /\ tswf t /\ bounds t.

Lemma op_ok_len o : op_ok o -> match o with TAdd _ e => (length (e_path e) <= 255)%nat | _ => True end.
Proof. destruct o; cbn; tauto. Qed.

Theorem tstep_inv cfg self t o : tinv t -> op_ok o -> tinv (tstep cfg self t o).
Proof.
  intros (Hs & Hw & Hsw & Hb) Ho.
  destruct (tstep_sorted cfg self t o Hs Hw (op_ok_len o Ho)) as [S W].
  split; [exact S|]. split; [exact W|].
  destruct o as [now e|ip|router disc|now]; cbn [tstep].
  - destruct (add_route cfg now t e) as [[t' b]|c|] eqn:Ha; cbn; try (split; assumption).
    exact (add_route_bounds cfg now t e t' b Hs Hw Hsw Hb Ho Ha).
  - apply filter_bounds; assumption.
  - apply filter_bounds; assumption.
  - apply clean_bounds; assumption.
Qed.

Theorem history_inv cfg self : forall ops t, tinv t -> Forall op_ok ops -> tinv (fold_left (tstep cfg self) ops t).
Proof.
  induction ops as [|o ops IH]; intros t Ht Ho; cbn [fold_left]; [exact Ht|].
  inversion Ho; subst. apply IH; [apply tstep_inv; assumption|assumption].
Qed.

Lemma tinv_nil : tinv [].
Proof.
  split; [constructor|]. split; [intros e []|]. split; [intros e []|]. intros d. cbn. lia.
Qed.

(* at most three non-peer routes and at most one direct-peer route per destination, in every
   reachable table *)
Theorem reachable_bounds cfg self ops : Forall op_ok ops ->
  forall d, (count_dst_nonpeer (fold_left (tstep cfg self) ops []) d <= 3)%nat /\
            (count_dst_peer (fold_left (tstep cfg self) ops []) d <= 1)%nat.
Proof.
  intros Ho d. destruct (history_inv cfg self ops [] tinv_nil Ho) as (_ & _ & _ & Hb). exact (Hb d).
Qed.

(* ---------- direct-peer routes disappear only through a removal that names them ---------- *)
Definition has_peer (t : list entry) (p : N) : Prop :=
  exists x, In x t /\ e_source x = src_peer /\ e_dst x = p.

Lemma replace_at_keeps {A} (t : list A) i x e y : nth_error t i = Some x -> In y t -> y = x \/ In y (replace_at t i e).
Proof.
  intros Hx Hy. rewrite (nth_split_at t i x Hx) in Hy. apply in_app_or in Hy. unfold replace_at.
  destruct Hy as [Hy|[Hy|Hy]]; [right; apply in_or_app; left; exact Hy|left; symmetry; exact Hy|right; apply in_or_app; right; right; exact Hy].
Qed.

Theorem add_route_keeps_peers cfg now t e0 t' b p :
  sorted t -> tpwf t -> tswf t -> bounds t -> op_ok (TAdd now e0) ->
  add_route cfg now t e0 = Ok (t', b) -> has_peer t p -> has_peer t' p.
Proof.
  intros Hs Hw Hsw Hb (Hlen & Hpeer & Hnp) Ha (y & Hy & Sy & Dy). revert Ha. unfold add_route.
  destruct (rp_for cfg (e_dst e0)) as [rp|]; [|discriminate].
  destruct (if 0 <? rp_rbits rp then _ else _) as [pa pb].
  repeat match goal with |- context [if ?c then Err _ else _] => destruct c; [discriminate|] end.
  match goal with |- context [match ?c with Ok _ => _ | Err _ => _ | Panic => _ end] => destruct c as [exp2|?|] end; try discriminate.
  destruct (build_blocks (labels_of (e_path e0))); try discriminate.
  set (e := mkEntry (e_dst e0) pa pb (e_nexthop e0) (e_path e0) (e_stub e0) (e_source e0) exp2 (calc_thops (e_path e0)) (calc_tdelay (e_path e0) (e_tdelay e0))).
  assert (Se : swf e).
  { split; cbn [e e_source e_thops]; intros H; [apply calc_thops_peer; auto|apply calc_thops_np; split; auto]. }
  pose proof (tpwf_twf t Hw) as Htw.
  destruct (dst_section t (e_dst e)) as [s en] eqn:Hsec.
  destruct (dst_section_spec t (e_dst e) s en Hs Htw Hsec) as (Hbnd & Hlo & Hmid & Hhi).
  assert (Hkeep_ins : forall i, has_peer (insert_at t i e) p).
  { intros i. exists y. split; [apply insert_at_in; right; exact Hy|auto]. }
  assert (Hrep : forall i x, (s <= i < en)%nat -> nth_error t i = Some x ->
                   (e_source x =? src_peer) = (e_source e =? src_peer) ->
                   has_peer (sort_section (replace_at t i e) s en) p).
  { intros i x Hi Hx Hcl.
    assert (Dx : e_dst x = e_dst e).
    { apply Hmid. apply (nth_error_In _ (i - s)). rewrite nth_error_skipn_firstn by lia.
      replace (s + (i - s))%nat with i by lia. exact Hx. }
    destruct (replace_at_keeps t i x e y Hx Hy) as [->|Hin].
    - exists e. split; [apply sort_section_in; [lia|apply replace_at_in_new]|].
      rewrite Sy in Hcl. rewrite N.eqb_refl in Hcl. symmetry in Hcl. apply N.eqb_eq in Hcl. split; [exact Hcl|congruence].
    - exists y. split; [apply sort_section_in; [lia|exact Hin]|auto]. }
  destruct (Nat.leb_spec en s) as [Hle|Hgt].
  - match goal with |- context [if ?c then Ok (t, false) else _] => destruct c end; intros H; inversion H; subst; [exists y; auto|apply Hkeep_ins].
  - match goal with |- context [if ?b then Ok (t, false) else _] => destruct b end; [intros H; inversion H; subst; exists y; auto|].
    match goal with |- context [match ?f with Some _ => _ | None => _ end] => destruct f as [i|] eqn:Hf end.
    + intros H. inversion H; subst.
      destruct (find_eq_some _ _ _ _ Hf) as (x & Hx & Req & Hsi).
      pose proof (find_eq_range _ _ _ _ Hf) as Hr. rewrite firstn_length, skipn_length in Hr.
      rewrite nth_error_skipn_firstn in Hx by lia. replace (s + (i - s))%nat with i in Hx by lia.
      apply (Hrep i x); [lia|exact Hx|].
      apply route_equals_same_class; [apply Hsw; eapply nth_error_In; exact Hx|exact Se|exact Req].
    + match goal with |- context [if ?c then Ok (insert_at _ _ _, true) else _] => destruct c eqn:Hc3 end; [intros H; inversion H; subst; apply Hkeep_ins|].
      apply orb_false_iff in Hc3. destruct Hc3 as [Hc3 Hsrc]. apply Nat.ltb_ge in Hc3.
      destruct (nth_error t (s + 2)) as [third|] eqn:Hth; [|discriminate].
      destruct (std_cmp e third <? 0)%Z; intros H; inversion H; subst; [|exists y; auto].
      (* as in add_route_bounds: the third route is not a peer route, so y is not it *)
      destruct (N.eqb_spec (e_source third) src_peer) as [St|St].
      * exfalso.
        destruct (nth_error t s) as [first|] eqn:Hfi; [|apply nth_error_None in Hfi; lia].
        assert (Hin1 : In first (firstn (en - s) (skipn s t))).
        { eapply nth_error_In. rewrite (nth_error_skipn_firstn t s (en - s) 0) by lia. rewrite Nat.add_0_r. exact Hfi. }
        assert (Hin3 : In third (firstn (en - s) (skipn s t))).
        { eapply nth_error_In. rewrite (nth_error_skipn_firstn t s (en - s) 2) by lia. exact Hth. }
        pose proof (Hmid _ Hin1) as D1. pose proof (Hmid _ Hin3) as D3.
        pose proof (sorted_nth t Hs s (s + 2)%nat first third ltac:(lia) Hfi Hth) as Hsle.
        unfold sle in Hsle. apply std_le_iff in Hsle.
        pose proof (Hsw _ (nth_error_In _ _ Hfi)) as [F1 F2]. pose proof (Hsw _ (nth_error_In _ _ Hth)) as [T1 _].
        pose proof (pwf_ewf _ (Hw _ (nth_error_In _ _ Hfi))) as [E1 _].
        assert (e_thops first = 1).
        { rewrite (T1 St) in Hsle. destruct Hsle as [Hsle|[_ [Hsle|[Hsle _]]]]; lia. }
        assert (Sf : e_source first = src_peer).
        { destruct (N.eq_dec (e_source first) src_peer) as [E|E]; [exact E|specialize (F2 E); lia]. }
        assert (2 <= cnt (is_p (e_dst e)) t)%nat.
        { apply (cnt_two _ t s (s + 2)%nat first third); [lia|exact Hfi|exact Hth| |]; unfold is_p.
          - rewrite D1, N.eqb_refl, Sf. reflexivity.
          - rewrite D3, N.eqb_refl, St. reflexivity. }
        destruct (Hb (e_dst e)). lia.
      * destruct (replace_at_keeps t (s + 2) third e y Hth Hy) as [->|Hin]; [contradiction|].
        exists y. split; [apply sort_section_in; [lia|exact Hin]|auto].
Qed.

(* a step removes the direct-peer route to p only if it is a next-hop removal naming the route's
   next hop, or a disconnect removal whose router is on the route *)
Theorem peers_persist cfg self t o p :
  tinv t -> op_ok o -> has_peer t p ->
  has_peer (tstep cfg self t o) p \/
  (exists ip, o = TRemoveNextHop ip /\ exists x, In x t /\ e_source x = src_peer /\ e_dst x = p /\ e_nexthop x = ip) \/
  (exists r disc, o = TRemoveDisconnected r disc).
Proof.
  intros (Hs & Hw & Hsw & Hb) Ho Hp. destruct o as [now e|ip|router disc|now]; cbn [tstep].
  - left. destruct (add_route cfg now t e) as [[t' b]|c|] eqn:Ha; cbn; try exact Hp.
    exact (add_route_keeps_peers cfg now t e t' b p Hs Hw Hsw Hb Ho Ha Hp).
  - destruct Hp as (x & Hx & Sx & Dx). destruct (N.eq_dec (e_nexthop x) ip) as [E|E].
    + right. left. exists ip. split; [reflexivity|]. exists x. auto.
    + left. exists x. split; [apply remove_next_hop_spec; auto|auto].
  - right. right. eauto.
  - left. destruct Hp as (x & Hx & Sx & Dx). exists x. split; [apply clean_keeps_peers; assumption|auto].
Qed.

(* a disconnect removal without a peer list removes the route to p only if the disconnected router
   is p, the route's next hop, or on its path *)
Theorem peers_persist_disconnect t router p :
  has_peer t p ->
  has_peer (remove_disconnected t router []) p \/
  exists x, In x t /\ e_source x = src_peer /\ e_dst x = p /\
            (p = router \/ e_nexthop x = router \/ In router (map h_router (e_path x))).
Proof.
  intros (x & Hx & Sx & Dx).
  destruct (N.eq_dec p router) as [E1|E1]; [right; exists x; auto|].
  destruct (N.eq_dec (e_nexthop x) router) as [E2|E2]; [right; exists x; auto 6|].
  destruct (in_dec N.eq_dec router (map h_router (e_path x))) as [E3|E3]; [right; exists x; auto 7|].
  left. exists x. split; [apply remove_disconnected_all_spec; subst; auto|auto].
Qed.

(* ---------- non-vacuity: a reachable table that meets the bounds with equality ---------- *)
Definition ex_cfg : list rprefix := [mkRp 0 0 16 0%Z 4].
Definition ex_g (dst r1 delay : N) : entry :=
  mkEntry dst 0 0 7 [mkHop 1 delay 3 0; mkHop r1 5 4 5; mkHop dst 5 0 6] false src_gossip 5000000%Z 0 0.
Definition ex_p (dst : N) : entry := mkEntry dst 0 0 dst [] false src_peer 0%Z 0 0.
Definition ex_ops : list top :=
  [TAdd 1000 (ex_g 100 11 9); TAdd 1000 (ex_g 100 12 8); TAdd 1000 (ex_g 100 13 7); TAdd 1000 (ex_p 100);
   TAdd 1000 (ex_g 100 14 6); TAdd 1000 (ex_g 100 15 50); TAdd 1000 (ex_p 100); TRemoveNextHop 9; TClean 2000].

Example bounds_nonvacuous :
  Forall op_ok ex_ops /\
  count_dst_nonpeer (fold_left (tstep ex_cfg 1) ex_ops []) 100 = 3%nat /\
  count_dst_peer (fold_left (tstep ex_cfg 1) ex_ops []) 100 = 1%nat /\
  map (fun e => (e_source e, e_tdelay e)) (fold_left (tstep ex_cfg 1) ex_ops []) = [(1, 0); (2, 16); (2, 17); (2, 19)].
Proof.
  split; [|vm_compute; auto].
  repeat constructor; cbn; try lia; try discriminate; intros H; try discriminate; try (exfalso; apply H; reflexivity).
Qed.
