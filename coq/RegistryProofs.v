(* RegistryProofs.v — the registry invariant holds after every history of operations (C16). *)
From Verif Require Import Prelude Registry.

Lemma lookup_in {V} k (l : list (N * V)) v : lookup k l = Some v -> In (k, v) l.
Proof.
  induction l as [|[k' v'] t IH]; cbn; [discriminate|].
  destruct (N.eqb_spec k k') as [->|Hn]; [intros H; inversion H; left; reflexivity|intros H; right; exact (IH H)].
Qed.

Lemma lookup_none_notin {V} k (l : list (N * V)) : lookup k l = None <-> ~ In k (map fst l).
Proof.
  induction l as [|[k' v'] t IH]; cbn; [tauto|].
  destruct (N.eqb_spec k k') as [->|Hn]; split.
  - discriminate.
  - intros H. exfalso. apply H. left. reflexivity.
  - intros H [E|E]; [congruence|]. apply IH in H. contradiction.
  - intros H. apply IH. intros E. apply H. right. exact E.
Qed.

Lemma lookup_nodup {V} k v (l : list (N * V)) : NoDup (map fst l) -> In (k, v) l -> lookup k l = Some v.
Proof.
  induction l as [|[k' v'] t IH]; cbn; [intros _ []|]. intros Hn [E|E].
  - inversion E; subst. rewrite N.eqb_refl. reflexivity.
  - inversion Hn as [|? ? Hni Hnd]; subst. destruct (N.eqb_spec k k') as [->|Hne]; [|exact (IH Hnd E)].
    exfalso. apply Hni. change k' with (fst (k', v)). apply in_map. exact E.
Qed.

Lemma in_remove_key {V} k (l : list (N * V)) x : In x (remove_key k l) <-> In x l /\ fst x <> k.
Proof. unfold remove_key. rewrite filter_In, negb_true_iff, N.eqb_neq. tauto. Qed.

Lemma lookup_remove_same {V} k (l : list (N * V)) : lookup k (remove_key k l) = None.
Proof.
  apply lookup_none_notin. intros H. apply in_map_iff in H. destruct H as (x & Hx & Hin).
  apply in_remove_key in Hin. destruct Hin as [_ Hn]. congruence.
Qed.

Lemma lookup_remove_other {V} k k' (l : list (N * V)) : k' <> k -> lookup k' (remove_key k l) = lookup k' l.
Proof.
  intros Hne. induction l as [|[a v] t IH]; cbn; [reflexivity|].
  destruct (N.eqb_spec a k) as [->|Ha]; cbn.
  - destruct (N.eqb_spec k' k); [contradiction|exact IH].
  - destruct (k' =? a); [reflexivity|exact IH].
Qed.

Lemma remove_key_nodup {V} k (l : list (N * V)) : NoDup (map fst l) -> NoDup (map fst (remove_key k l)).
Proof.
  induction l as [|[a v] t IH]; cbn; [constructor|]. intros H. inversion H as [|? ? Hni Hnd]; subst.
  destruct (negb (a =? k)); cbn; [|exact (IH Hnd)]. constructor; [|exact (IH Hnd)].
  intros E. apply Hni. apply in_map_iff in E. destruct E as (x & Hx & Hin). apply in_remove_key in Hin.
  apply in_map_iff. exists x. tauto.
Qed.

Lemma inv_init : inv init.
Proof.
  split; cbn.
  - intros p l [].
  - intros b l [].
  - constructor.
  - constructor.
  - intros l. tauto.
  - intros p. split; [intros []|intros H; exfalso; apply H; reflexivity].
  - intros d n b [].
Qed.

Lemma link_eqb_id a b : link_eqb a b = true <-> l_id a = l_id b.
Proof. unfold link_eqb. apply N.eqb_eq. Qed.

Lemma in_snd_of_pair {V} (k : N) (v : V) l : In (k, v) l -> In v (map snd l).
Proof. intros H. change v with (snd (k, v)). apply in_map. exact H. Qed.

Theorem inv_step r o : inv r -> op_ok r o -> inv (step r o).
Proof.
  intros I Hok. pose proof I as [Ipk Ilk Ipn Iln Isl Ipr Inh].
  destruct o as [l rt|l|dst nh]; cbn [step].
  - (* AddLink *)
    destruct Hok as [Hlab Hid]. unfold add_link.
    destruct (lookup (l_peer l) (by_peer r)) as [e|] eqn:Ep; [destruct (link_eqb e l); exact I|].
    destruct (lookup (l_label l) (by_label r)) as [e|] eqn:El; [exact I|].
    destruct rt; cbn [negb fst]; [|exact I].
    apply lookup_none_notin in Ep. apply lookup_none_notin in El.
    split; cbn [by_peer by_label routes].
    + intros p x [E|E]; [inversion E; reflexivity|exact (Ipk p x E)].
    + intros b x [E|E]; [inversion E; subst; split; [reflexivity|exact Hlab]|exact (Ilk b x E)].
    + cbn. constructor; assumption.
    + cbn. constructor; assumption.
    + intros x. cbn. rewrite (Isl x). tauto.
    + intros p. cbn [In lookup]. destruct (N.eqb_spec p (l_peer l)) as [->|Hne].
      * split; [discriminate|intros _; left; reflexivity].
      * rewrite <- Ipr. split.
        -- intros [E|E]; [inversion E; congruence|]. apply filter_In in E. tauto.
        -- intros E. right. apply filter_In. split; [exact E|]. cbn. destruct (N.eqb_spec p (l_peer l)); [contradiction|reflexivity].
    + intros d n b [E|E].
      * inversion E; subst. cbn. rewrite N.eqb_refl. discriminate.
      * apply filter_In in E. destruct E as [E _]. apply Inh in E. cbn. destruct (n =? l_peer l); [discriminate|exact E].
  - (* RemoveLink *)
    unfold remove_link.
    destruct (lookup (l_peer l) (by_peer r)) as [e|] eqn:Ep.
    2:{ (* not registered by peer: then not by label either *)
      destruct (lookup (l_label l) (by_label r)) as [e|] eqn:El; [|destruct r; exact I].
      destruct (link_eqb e l) eqn:Eq; [|destruct r; exact I]. exfalso.
      apply link_eqb_id in Eq. pose proof (lookup_in _ _ _ El) as Hin.
      assert (e = l) by (apply Hok; [apply in_or_app; right; exact (in_snd_of_pair _ _ _ Hin)|exact Eq]). subst e.
      apply in_snd_of_pair in Hin. apply Isl in Hin. apply in_map_iff in Hin. destruct Hin as ([p x] & Hx & Hin). cbn in Hx. subst x.
      pose proof (Ipk p l Hin). subst p. rewrite (lookup_nodup _ _ _ Ipn Hin) in Ep. discriminate. }
    destruct (link_eqb e l) eqn:Eq.
    2:{ (* another link holds the peer: this one holds no label entry either *)
      destruct (lookup (l_label l) (by_label r)) as [e2|] eqn:El; [|destruct r; exact I].
      destruct (link_eqb e2 l) eqn:Eq2; [|destruct r; exact I]. exfalso.
      apply link_eqb_id in Eq2. pose proof (lookup_in _ _ _ El) as Hin.
      assert (e2 = l) by (apply Hok; [apply in_or_app; right; exact (in_snd_of_pair _ _ _ Hin)|exact Eq2]). subst e2.
      apply in_snd_of_pair in Hin. apply Isl in Hin. apply in_map_iff in Hin. destruct Hin as ([p x] & Hx & Hin). cbn in Hx. subst x.
      pose proof (Ipk p l Hin). subst p. rewrite (lookup_nodup _ _ _ Ipn Hin) in Ep. inversion Ep; subst e.
      unfold link_eqb in Eq. rewrite N.eqb_refl in Eq. discriminate. }
    (* registered: e = l, and the label entry is l's too *)
    apply link_eqb_id in Eq. pose proof (lookup_in _ _ _ Ep) as Hinp.
    assert (e = l) by (apply Hok; [apply in_or_app; left; exact (in_snd_of_pair _ _ _ Hinp)|exact Eq]). subst e.
    assert (Hinl : In (l_label l, l) (by_label r)).
    { pose proof (in_snd_of_pair _ _ _ Hinp) as H. apply Isl in H. apply in_map_iff in H. destruct H as ([b x] & Hx & Hin). cbn in Hx. subst x.
      destruct (Ilk b l Hin) as [<- _]. exact Hin. }
    rewrite (lookup_nodup _ _ _ Iln Hinl). unfold link_eqb at 1. rewrite N.eqb_refl.
    split; cbn [by_peer by_label routes].
    + intros p x Hx. apply in_remove_key in Hx. exact (Ipk p x (proj1 Hx)).
    + intros b x Hx. apply in_remove_key in Hx. exact (Ilk b x (proj1 Hx)).
    + apply remove_key_nodup. exact Ipn.
    + apply remove_key_nodup. exact Iln.
    + intros x. split; intros H; apply in_map_iff in H; destruct H as ([kx y] & Hy & Hin); cbn in Hy; subst y; apply in_remove_key in Hin; destruct Hin as [Hin Hk]; cbn in Hk.
      * assert (Hx : In x (map snd (by_label r))) by (apply Isl; exact (in_snd_of_pair _ _ _ Hin)).
        apply in_map_iff in Hx. destruct Hx as ([b y] & Hy & Hb). cbn in Hy. subst y.
        apply in_map_iff. exists (b, x). split; [reflexivity|]. apply in_remove_key. split; [exact Hb|]. cbn.
        intros E. subst b.
        assert (x = l) by (pose proof (lookup_nodup _ _ _ Iln Hinl) as H2; pose proof (lookup_nodup _ _ _ Iln Hb) as H3; congruence).
        subst x. apply Hk. symmetry. exact (Ipk kx l Hin).
      * assert (Hx : In x (map snd (by_peer r))) by (apply Isl; exact (in_snd_of_pair _ _ _ Hin)).
        apply in_map_iff in Hx. destruct Hx as ([p y] & Hy & Hp). cbn in Hy. subst y.
        apply in_map_iff. exists (p, x). split; [reflexivity|]. apply in_remove_key. split; [exact Hp|]. cbn.
        intros E. subst p.
        assert (x = l) by (pose proof (lookup_nodup _ _ _ Ipn Hinp) as H2; pose proof (lookup_nodup _ _ _ Ipn Hp) as H3; congruence).
        subst x. apply Hk. symmetry. exact (proj1 (Ilk kx l Hin)).
    + intros p. destruct (N.eq_dec p (l_peer l)) as [->|Hne].
      * rewrite lookup_remove_same. split; [|intros H; contradiction].
        intros H. apply filter_In in H. destruct H as [_ H]. cbn in H. rewrite N.eqb_refl in H. discriminate.
      * rewrite lookup_remove_other by exact Hne. rewrite <- Ipr. rewrite filter_In. cbn.
        destruct (N.eqb_spec p (l_peer l)); [contradiction|]. tauto.
    + intros d n b H. apply filter_In in H. destruct H as [H Hn]. cbn in Hn. apply negb_true_iff, N.eqb_neq in Hn.
      rewrite lookup_remove_other by exact Hn. exact (Inh d n b H).
  - (* a learned route *)
    destruct Hok as [Hnh Hdn]. split; cbn [by_peer by_label routes]; try assumption.
    + intros p. rewrite <- Ipr. cbn. split; [intros [E|E]; [inversion E|exact E]|intros E; right; exact E].
    + intros d n b [E|E]; [inversion E; subst; exact Hnh|exact (Inh d n b E)].
Qed.

(* every history of operations by well-behaved callers keeps the invariant *)
Fixpoint all_ok (r : reg) (h : list op) : Prop :=
  match h with [] => True | o :: t => op_ok r o /\ all_ok (step r o) t end.

Theorem inv_history : forall h r, inv r -> all_ok r h -> inv (fold_left step h r).
Proof.
  induction h as [|o t IH]; intros r I H; [exact I|]. destruct H as [Ho Ht]. cbn [fold_left].
  apply IH; [apply inv_step; assumption|exact Ht].
Qed.

(* what the invariant means for lookups: a registered link is found by its peer and by its label,
   labels are unique and non-zero, the peer route exists exactly for registered peers, and no
   route goes through an unregistered next hop *)
Theorem inv_found r l : inv r -> In l (map snd (by_peer r)) ->
  lookup (l_peer l) (by_peer r) = Some l /\ lookup (l_label l) (by_label r) = Some l /\ l_label l <> 0.
Proof.
  intros [Ipk Ilk Ipn Iln Isl _ _] H.
  pose proof H as H2. apply Isl in H2.
  apply in_map_iff in H. destruct H as ([p x] & Hx & Hp). cbn in Hx. subst x.
  apply in_map_iff in H2. destruct H2 as ([b x] & Hx & Hb). cbn in Hx. subst x.
  pose proof (Ipk p l Hp). subst p. destruct (Ilk b l Hb) as [<- Hnz].
  split; [exact (lookup_nodup _ _ _ Ipn Hp)|]. split; [exact (lookup_nodup _ _ _ Iln Hb)|exact Hnz].
Qed.
