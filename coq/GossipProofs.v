(* GossipProofs.v — reach, loop-freedom, at-most-once and termination of the flooding protocol
   (C09), for every graph, every announcement schedule and every delivery order. *)
From Verif Require Import Prelude Gossip.

Section Proofs.
  Variable nodes : list N.
  Variable adj : N -> N -> bool.
  Hypothesis nodes_nodup : NoDup nodes.
  Hypothesis adj_irrefl : forall a, adj a a = false.

  Notation neighbours := (neighbours nodes adj).
  Notation targets := (targets nodes adj).
  Notation gstep := (gstep nodes adj).
  Notation reachable := (reachable nodes adj).
  Notation fresh_msgs := (fresh_msgs nodes adj).
  Notation fwd_msgs := (fwd_msgs nodes adj).

  Lemma memN_In x l : memN x l = true <-> In x l.
  Proof.
    unfold memN. rewrite existsb_exists. split.
    - intros (y & Hy & He). apply N.eqb_eq in He. subst. exact Hy.
    - intros H. exists x. split; [exact H|apply N.eqb_refl].
  Qed.

  Lemma in_neighbours r x : In x (neighbours r) <-> In x nodes /\ adj r x = true.
  Proof. unfold Gossip.neighbours. apply filter_In. Qed.

  Lemma neighbours_nodup r : NoDup (neighbours r).
  Proof. apply NoDup_filter. exact nodes_nodup. Qed.

  (* forwarding targets: a neighbour that is not the origin, not the sender, not in the hop list *)
  Lemma in_targets r m x :
    In x (targets r m) <->
    In x nodes /\ adj r x = true /\ x <> g_origin m /\ x <> g_from m /\ ~ In x (g_hops m).
  Proof.
    unfold Gossip.targets. rewrite filter_In, in_neighbours.
    rewrite !andb_true_iff, !negb_true_iff, !N.eqb_neq.
    assert (memN x (g_hops m) = false <-> ~ In x (g_hops m)).
    { rewrite <- memN_In. destruct (memN x (g_hops m)); split.
      - intros H; discriminate.
      - intros H; exfalso; apply H; reflexivity.
      - intros _ H; discriminate.
      - intros _; reflexivity. }
    rewrite H. split; [intros ((A & B) & (C & D) & E); auto|intros (A & B & C & D & E); auto].
  Qed.

  Lemma targets_nodup r m : NoDup (targets r m).
  Proof. apply NoDup_filter. apply neighbours_nodup. Qed.

  Lemma in_remove_mid {A} (pre post : list A) m x : In x (pre ++ m :: post) -> x = m \/ In x (pre ++ post).
  Proof. rewrite !in_app_iff. cbn. intros [H|[H|H]]; auto. Qed.

  Lemma in_mid_sub {A} (pre post : list A) m x : In x (pre ++ post) -> In x (pre ++ m :: post).
  Proof. rewrite !in_app_iff. cbn. tauto. Qed.

  (* ================= reach ================= *)
  Definition pending (s : gst) (o x : N) : Prop := exists m, In m (inflight s) /\ g_origin m = o /\ g_to m = x.

  Record inv (s : gst) : Prop := {
    i_ann : forall id o x, In (id, o) (announced s) -> In x nodes -> adj o x = true -> has_route s x o \/ pending s o x;
    i_has : forall q o x, has_route s q o -> In x nodes -> adj q x = true -> x <> o -> has_route s x o \/ pending s o x;
    i_fl : forall m, In m (inflight s) ->
           (forall h, In h (g_hops m) -> has_route s h (g_origin m)) /\
           (g_from m = g_origin m \/ has_route s (g_from m) (g_origin m))
  }.

  Lemma inv_init : inv ginit.
  Proof. split; cbn; intros; contradiction. Qed.

  (* removing a frame whose receiver needs nothing more keeps the invariant *)
  Lemma inv_remove s pre m post dl hi :
    inv s -> inflight s = pre ++ m :: post ->
    (g_to m = g_origin m \/ has_route s (g_to m) (g_origin m)) ->
    inv (mkG (has s) (pre ++ post) hi dl (announced s)).
  Proof.
    intros [Ia Ih If] E Hdone.
    assert (Hp : forall o x, x <> o -> pending s o x ->
                 has_route s x o \/ pending (mkG (has s) (pre ++ post) hi dl (announced s)) o x).
    { intros o x Hxo (m' & Hin & Ho & Ht). rewrite E in Hin. apply in_remove_mid in Hin. destruct Hin as [->|Hin].
      - destruct Hdone as [Hd|Hd]; [congruence|]. left. rewrite <- Ho, <- Ht. exact Hd.
      - right. exists m'. cbn. auto. }
    split; cbn.
    - intros id o x Hin Hx Hadj. assert (x <> o) by (intros ->; rewrite adj_irrefl in Hadj; discriminate).
      destruct (Ia id o x Hin Hx Hadj) as [H1|H1]; [left; exact H1|]. destruct (Hp o x H H1); auto.
    - intros q o x Hq Hx Hadj Hne. destruct (Ih q o x Hq Hx Hadj Hne) as [H1|H1]; [left; exact H1|]. destruct (Hp o x Hne H1); auto.
    - intros m' Hin. apply If. rewrite E. apply in_mid_sub. exact Hin.
  Qed.

  Lemma inv_step s s' : inv s -> gstep s s' -> inv s'.
  Proof.
    intros I Hst. destruct Hst as [s id o Ho Hfresh | s pre m post E Hig | s pre m post E Hh | s pre m post E Hno Hnh].
    - (* announce *)
      destruct I as [Ia Ih If]. split; cbn.
      + intros id' o' x [Heq|Hin] Hx Hadj.
        * inversion Heq; subst. right. exists (mkMsg id' o' [] o' x). cbn. split; [|auto].
          apply in_or_app. right. unfold Gossip.fresh_msgs. apply in_map. apply in_neighbours. auto.
        * destruct (Ia id' o' x Hin Hx Hadj) as [H1|(m & Hm & H2)]; [left; exact H1|].
          right. exists m. cbn. split; [apply in_or_app; left; exact Hm|exact H2].
      + intros q o' x Hq Hx Hadj Hne. destruct (Ih q o' x Hq Hx Hadj Hne) as [H1|(m & Hm & H2)]; [left; exact H1|].
        right. exists m. cbn. split; [apply in_or_app; left; exact Hm|exact H2].
      + intros m Hin. apply in_app_or in Hin. destruct Hin as [Hin|Hin]; [apply If; exact Hin|].
        unfold Gossip.fresh_msgs in Hin. apply in_map_iff in Hin. destruct Hin as (x & <- & _). cbn. split; [intros h []|left; reflexivity].
    - (* ignore *)
      apply (inv_remove s pre m post); [exact I|exact E|].
      destruct Hig as [Hig|Hig]; [left; exact Hig|]. right.
      destruct I as [_ _ If]. apply (If m); [rewrite E; apply in_elt|exact Hig].
    - (* drop *)
      apply (inv_remove s pre m post); [exact I|exact E|right; exact Hh].
    - (* add *)
      pose proof I as [Ia Ih If].
      assert (Hm : In m (inflight s)) by (rewrite E; apply in_elt).
      destruct (If m Hm) as [Hhops Hfrom].
      set (r := g_to m) in *. set (o := g_origin m) in *.
      assert (Hp : forall o' x, pending s o' x ->
                   (x = r /\ o' = o) \/ pending (mkG ((r, o) :: has s) (pre ++ post ++ fwd_msgs r m) (history s ++ fwd_msgs r m) (m :: delivered s) (announced s)) o' x).
      { intros o' x (m' & Hin & Ho' & Ht). rewrite E in Hin. apply in_remove_mid in Hin. destruct Hin as [->|Hin].
        - left. auto.
        - right. exists m'. cbn. split; [|auto]. rewrite app_assoc. apply in_or_app. left. exact Hin. }
      split; cbn.
      + intros id o' x Hin Hx Hadj. destruct (Ia id o' x Hin Hx Hadj) as [H1|H1]; [left; right; exact H1|].
        destruct (Hp o' x H1) as [[-> ->]|H2]; [left; left; reflexivity|right; exact H2].
      + intros q o' x [Heq|Hq] Hx Hadj Hne.
        * inversion Heq; subst q o'. clear Heq.
          destruct (N.eq_dec x (g_from m)) as [Hxf|Hxf].
          { destruct Hfrom as [Hf|Hf]; [exfalso; apply Hne; rewrite Hxf; exact Hf|]. left. right. rewrite Hxf. exact Hf. }
          destruct (in_dec N.eq_dec x (g_hops m)) as [Hxh|Hxh]; [left; right; apply Hhops; exact Hxh|].
          right. exists (mkMsg (g_id m) o (r :: g_hops m) r x). cbn. split; [|auto].
          apply in_or_app. right. apply in_or_app. right. unfold Gossip.fwd_msgs. apply in_map. apply in_targets. auto.
        * destruct (Ih q o' x Hq Hx Hadj Hne) as [H1|H1]; [left; right; exact H1|].
          destruct (Hp o' x H1) as [[-> ->]|H2]; [left; left; reflexivity|right; exact H2].
      + intros m' Hin. rewrite app_assoc in Hin. apply in_app_or in Hin. destruct Hin as [Hin|Hin].
        * destruct (If m') as [H1 H2]; [rewrite E; apply in_mid_sub; exact Hin|].
          split; [intros h Hh; right; apply H1; exact Hh|destruct H2; [left; assumption|right; right; assumption]].
        * unfold Gossip.fwd_msgs in Hin. apply in_map_iff in Hin. destruct Hin as (x & <- & _). cbn.
          split; [|right; left; reflexivity]. intros h [<-|Hh]; [left; reflexivity|right; apply Hhops; exact Hh].
  Qed.

  Lemma reachable_inv s : reachable s -> inv s.
  Proof. induction 1 as [|s s' _ IH Hst]; [apply inv_init|exact (inv_step _ _ IH Hst)]. Qed.

  (* Reach: in every connected mesh, whatever the order of announcements and deliveries, once
     nothing is in flight every router holds a route to every router that has announced. *)
  Theorem flood_reach s o r :
    reachable s -> inflight s = [] -> connected nodes adj ->
    (exists id, In (id, o) (announced s)) -> In o nodes -> In r nodes -> r <> o ->
    has_route s r o.
  Proof.
    intros Hr Hq Hc (id & Hann) Ho Hrn Hne. destruct (reachable_inv s Hr) as [Ia Ih _].
    assert (Hnp : forall o' x, ~ pending s o' x) by (intros o' x (m & Hin & _); rewrite Hq in Hin; exact Hin).
    destruct (Hc o r Ho Hrn) as [p Hw].
    assert (G : forall p a, (a = o \/ has_route s a o) -> walk nodes adj a p r -> r = o \/ has_route s r o).
    { clear p Hw. induction p as [|x t IH]; intros a Ha Hw; cbn in Hw.
      - subst a. exact Ha.
      - destruct Hw as (Hadj & Hx & Hw). apply (IH x); [|exact Hw].
        destruct (N.eq_dec x o) as [->|Hxo]; [left; reflexivity|]. right.
        destruct Ha as [->|Ha].
        + destruct (Ia id o x Hann Hx Hadj) as [H|H]; [exact H|exfalso; exact (Hnp _ _ H)].
        + destruct (Ih a o x Ha Hx Hadj Hxo) as [H|H]; [exact H|exfalso; exact (Hnp _ _ H)]. }
    destruct (G p o (or_introl eq_refl) Hw) as [H|H]; [contradiction|exact H].
  Qed.

  (* ================= loop-freedom, at-most-once, termination ================= *)
  Definition from_ok (m : msg) : Prop := g_from m = match g_hops m with [] => g_origin m | q :: _ => q end.
  Definition parent (m : msg) (r : N) (h : list N) : msg :=
    mkMsg (g_id m) (g_origin m) h (match h with [] => g_origin m | q :: _ => q end) r.

  Record inv2 (s : gst) : Prop := {
    j_hist_nodup : NoDup (history s);
    j_fl_nodup : NoDup (inflight s);
    j_fl_hist : forall m, In m (inflight s) -> In m (history s) /\ ~ In m (delivered s);
    j_del_hist : forall m, In m (delivered s) -> In m (history s);
    j_parent : forall m r h, In m (history s) -> g_hops m = r :: h -> In (parent m r h) (delivered s);
    j_from : forall m, In m (history s) -> from_ok m;
    j_ann : forall m, In m (history s) -> In (g_id m, g_origin m) (announced s);
    j_ids : forall id o o', In (id, o) (announced s) -> In (id, o') (announced s) -> o = o';
    j_path : forall m, In m (history s) -> NoDup (path_of m) /\ In (g_to m) nodes /\ (forall h, In h (g_hops m) -> In h nodes)
  }.

  Lemma inv2_init : inv2 ginit.
  Proof. split; cbn; intros; try contradiction; constructor. Qed.

  Lemma nodup_remove_mid {A} (pre post : list A) m : NoDup (pre ++ m :: post) -> NoDup (pre ++ post) /\ ~ In m (pre ++ post).
  Proof. intros H. split; [exact (NoDup_remove_1 _ _ _ H)|exact (NoDup_remove_2 _ _ _ H)]. Qed.

  Lemma msg_eta m : m = mkMsg (g_id m) (g_origin m) (g_hops m) (g_from m) (g_to m).
  Proof. destruct m; reflexivity. Qed.

  Lemma nodup_app_intro {A} (l1 l2 : list A) : NoDup l1 -> NoDup l2 -> (forall x, In x l1 -> ~ In x l2) -> NoDup (l1 ++ l2).
  Proof.
    induction l1 as [|a l1 IH]; intros H1 H2 Hd; cbn; [exact H2|].
    inversion H1; subst. constructor.
    - rewrite in_app_iff. intros [H|H]; [contradiction|]. exact (Hd a (or_introl eq_refl) H).
    - apply IH; auto. intros x Hx. apply Hd. right. exact Hx.
  Qed.

  Lemma nodup_map_inj {A B} (f : A -> B) l : (forall x y, f x = f y -> x = y) -> NoDup l -> NoDup (map f l).
  Proof.
    intros Hinj. induction 1 as [|a l Hn _ IH]; cbn; constructor; [|exact IH].
    rewrite in_map_iff. intros (y & He & Hy). apply Hinj in He. subst. contradiction.
  Qed.

  (* removing a delivered frame without sending anything *)
  Lemma inv2_remove s pre m post :
    inv2 s -> inflight s = pre ++ m :: post ->
    inv2 (mkG (has s) (pre ++ post) (history s) (m :: delivered s) (announced s)).
  Proof.
    intros [J1 J2 J3 J4 J5 J6 J7 J9 J8] E. rewrite E in J2. destruct (nodup_remove_mid _ _ _ J2) as [Hn Hni].
    assert (Hm : In m (inflight s)) by (rewrite E; apply in_elt).
    split; cbn; [exact J1|exact Hn| | | |exact J6|exact J7|exact J9|exact J8].
    - intros m' Hin. destruct (J3 m') as [H1 H2]; [rewrite E; apply in_mid_sub; exact Hin|].
      split; [exact H1|]. intros [->|H]; [contradiction|contradiction].
    - intros m' [<-|H]; [apply J3; exact Hm|apply J4; exact H].
    - intros m' r h Hin Hh. right. apply (J5 m' r h Hin Hh).
  Qed.

  Lemma inv2_step s s' : inv2 s -> gstep s s' -> inv2 s'.
  Proof.
    intros J Hst. destruct Hst as [s id o Ho Hfresh | s pre m post E Hig | s pre m post E Hh | s pre m post E Hno Hnh].
    - (* announce *)
      destruct J as [J1 J2 J3 J4 J5 J6 J7 J9 J8].
      assert (Hnew : forall x, In x (fresh_msgs id o) -> ~ In x (history s)).
      { intros x Hx Hin. unfold Gossip.fresh_msgs in Hx. apply in_map_iff in Hx. destruct Hx as (y & <- & _).
        apply J7 in Hin. cbn in Hin. exact (Hfresh o Hin). }
      assert (Hnd : NoDup (fresh_msgs id o)).
      { unfold Gossip.fresh_msgs. apply nodup_map_inj; [|apply neighbours_nodup]. intros x y H. inversion H. reflexivity. }
      split; cbn.
      + apply nodup_app_intro; auto. intros x Hx Hf. exact (Hnew x Hf Hx).
      + apply nodup_app_intro; auto. intros x Hx Hf. apply (Hnew x Hf). apply J3. exact Hx.
      + intros m Hin. apply in_app_or in Hin. destruct Hin as [Hin|Hin].
        * destruct (J3 m Hin). split; [apply in_or_app; left; assumption|assumption].
        * split; [apply in_or_app; right; exact Hin|]. intros Hd. apply (Hnew m Hin). apply J4. exact Hd.
      + intros m Hin. apply in_or_app. left. apply J4. exact Hin.
      + intros m r h Hin Hh. apply in_app_or in Hin. destruct Hin as [Hin|Hin]; [apply (J5 m r h Hin Hh)|].
        unfold Gossip.fresh_msgs in Hin. apply in_map_iff in Hin. destruct Hin as (y & <- & _). cbn in Hh. discriminate.
      + intros m Hin. apply in_app_or in Hin. destruct Hin as [Hin|Hin]; [apply J6; exact Hin|].
        unfold Gossip.fresh_msgs in Hin. apply in_map_iff in Hin. destruct Hin as (y & <- & _). reflexivity.
      + intros m Hin. apply in_app_or in Hin. destruct Hin as [Hin|Hin]; [right; apply J7; exact Hin|].
        unfold Gossip.fresh_msgs in Hin. apply in_map_iff in Hin. destruct Hin as (y & <- & _). left. reflexivity.
      + intros id' o1 o2 [H1|H1] [H2|H2].
        * congruence.
        * inversion H1; subst. exfalso. exact (Hfresh o2 H2).
        * inversion H2; subst. exfalso. exact (Hfresh o1 H1).
        * exact (J9 id' o1 o2 H1 H2).
      + intros m Hin. apply in_app_or in Hin. destruct Hin as [Hin|Hin]; [apply J8; exact Hin|].
        unfold Gossip.fresh_msgs in Hin. apply in_map_iff in Hin. destruct Hin as (y & <- & Hy). apply in_neighbours in Hy. destruct Hy as [Hy Hadj].
        unfold path_of. cbn. split; [|split; [exact Hy|intros h []]].
        constructor; [|constructor; [intros []|constructor]]. intros [He|[]]. subst y. rewrite adj_irrefl in Hadj. discriminate.
    - apply inv2_remove; assumption.
    - apply inv2_remove; assumption.
    - (* add *)
      pose proof J as [J1 J2 J3 J4 J5 J6 J7 J9 J8].
      assert (Hm : In m (inflight s)) by (rewrite E; apply in_elt).
      destruct (J3 m Hm) as [Hmh Hmd].
      set (r := g_to m) in *.
      rewrite E in J2. destruct (nodup_remove_mid _ _ _ J2) as [Hn Hni].
      assert (Hnew : forall x, In x (fwd_msgs r m) -> ~ In x (history s)).
      { intros x Hx Hin. unfold Gossip.fwd_msgs in Hx. apply in_map_iff in Hx. destruct Hx as (y & <- & _).
        pose proof (J5 _ r (g_hops m) Hin eq_refl) as Hp. unfold parent in Hp. cbn in Hp.
        apply Hmd. rewrite (msg_eta m). rewrite (J6 m Hmh). exact Hp. }
      assert (Hnd : NoDup (fwd_msgs r m)).
      { unfold Gossip.fwd_msgs. apply nodup_map_inj; [|apply targets_nodup]. intros x y H. inversion H. reflexivity. }
      assert (Hlen : forall x, In x (fwd_msgs r m) -> x <> m).
      { intros x Hx ->. exact (Hnew m Hx Hmh). }
      split; cbn.
      + apply nodup_app_intro; auto. intros x Hx Hf. exact (Hnew x Hf Hx).
      + rewrite app_assoc. apply nodup_app_intro; auto. intros x Hx Hf. apply (Hnew x Hf).
        apply J3. rewrite E. apply in_mid_sub. exact Hx.
      + intros m' Hin. rewrite app_assoc in Hin. apply in_app_or in Hin. destruct Hin as [Hin|Hin].
        * destruct (J3 m') as [H1 H2]; [rewrite E; apply in_mid_sub; exact Hin|].
          split; [apply in_or_app; left; exact H1|]. intros [<-|H]; contradiction.
        * split; [apply in_or_app; right; exact Hin|]. intros [<-|Hd]; [exact (Hlen m Hin eq_refl)|].
          apply (Hnew m' Hin). apply J4. exact Hd.
      + intros m' [<-|Hin]; apply in_or_app; left; [exact Hmh|apply J4; exact Hin].
      + intros m' r' h Hin Hh. apply in_app_or in Hin. destruct Hin as [Hin|Hin]; [right; apply (J5 m' r' h Hin Hh)|].
        unfold Gossip.fwd_msgs in Hin. apply in_map_iff in Hin. destruct Hin as (y & <- & _). cbn in Hh. inversion Hh; subst r' h.
        left. unfold parent. cbn. rewrite (msg_eta m) at 1. rewrite (J6 m Hmh). reflexivity.
      + intros m' Hin. apply in_app_or in Hin. destruct Hin as [Hin|Hin]; [apply J6; exact Hin|].
        unfold Gossip.fwd_msgs in Hin. apply in_map_iff in Hin. destruct Hin as (y & <- & _). reflexivity.
      + intros m' Hin. apply in_app_or in Hin. destruct Hin as [Hin|Hin]; [apply J7; exact Hin|].
        unfold Gossip.fwd_msgs in Hin. apply in_map_iff in Hin. destruct Hin as (y & <- & _). cbn. apply J7. exact Hmh.
      + exact J9.
      + intros m' Hin. apply in_app_or in Hin. destruct Hin as [Hin|Hin]; [apply J8; exact Hin|].
        unfold Gossip.fwd_msgs in Hin. apply in_map_iff in Hin. destruct Hin as (y & <- & Hy). apply in_targets in Hy.
        destruct Hy as (Hyn & Hadj & Hyo & Hyf & Hyh). destruct (J8 m Hmh) as (Hp & Hto & Hhn).
        unfold path_of in *. cbn. split; [|split; [exact Hyn|intros h [<-|Hh]; [exact Hto|apply Hhn; exact Hh]]].
        (* origin :: (rev hops ++ [r]) ++ [y] *)
        change (g_origin m :: (rev (g_hops m) ++ [r]) ++ [y]) with ((g_origin m :: rev (g_hops m) ++ [r]) ++ [y]).
        apply nodup_app_intro; [exact Hp|constructor; [intros []|constructor]|].
        intros x Hx [<-|[]]. cbn in Hx. rewrite in_app_iff in Hx. destruct Hx as [Hx|[Hx|[Hx|[]]]].
        * apply Hyo. symmetry. exact Hx.
        * apply Hyh. apply in_rev. exact Hx.
        * rewrite <- Hx in Hadj. rewrite adj_irrefl in Hadj. discriminate.
  Qed.

  Lemma reachable_inv2 s : reachable s -> inv2 s.
  Proof. induction 1 as [|s s' _ IH Hst]; [apply inv2_init|exact (inv2_step _ _ IH Hst)]. Qed.

  (* Every frame ever put on a link travelled a loop-free path of routers; in particular it was
     never sent to its origin or to a router already in its hop list. *)
  Theorem paths_loop_free s m : reachable s -> In m (history s) ->
    NoDup (path_of m) /\ g_to m <> g_origin m /\ ~ In (g_to m) (g_hops m).
  Proof.
    intros Hr Hin. destruct (reachable_inv2 s Hr) as [_ _ _ _ _ _ _ _ J8]. destruct (J8 m Hin) as (Hp & _ & _).
    split; [exact Hp|]. unfold path_of in Hp. inversion Hp as [|a l Hni Hnd]; subst.
    split.
    - intros E. apply Hni. rewrite in_app_iff. right. left. exact E.
    - intros Hh. apply NoDup_remove_2 in Hnd. rewrite app_nil_r in Hnd. apply Hnd. apply in_rev in Hh. exact Hh.
  Qed.

  (* ... and never back over the link it arrived on *)
  Theorem never_back r m x : In x (targets r m) -> x <> g_from m /\ x <> g_origin m /\ ~ In x (g_hops m).
  Proof. intros H. apply in_targets in H. tauto. Qed.

  (* An announcement travels each path at most once: no two frames ever put on links carry the
     same announcement over the same hop list to the same router. *)
  Theorem at_most_once s m1 m2 : reachable s -> In m1 (history s) -> In m2 (history s) ->
    g_id m1 = g_id m2 -> g_hops m1 = g_hops m2 -> g_to m1 = g_to m2 ->
    m1 = m2 /\ NoDup (history s).
  Proof.
    intros Hr H1 H2 Hid Hh Ht. destruct (reachable_inv2 s Hr) as [J1 _ _ _ _ J6 J7 J9 _].
    split; [|exact J1].
    assert (Ho : g_origin m1 = g_origin m2).
    { apply (J9 (g_id m1)); [apply J7; exact H1|rewrite Hid; apply J7; exact H2]. }
    pose proof (J6 m1 H1) as F1. pose proof (J6 m2 H2) as F2. unfold from_ok in *.
    rewrite (msg_eta m1), (msg_eta m2). rewrite F1, F2, Hid, Hh, Ht, Ho. reflexivity.
  Qed.

  (* ---------- termination ---------- *)
  Notation weight := (weight nodes).
  Notation sum_w := (sum_w nodes).
  Notation mu := (mu nodes).

  Lemma sum_w_app l1 l2 : sum_w (l1 ++ l2) = (sum_w l1 + sum_w l2)%nat.
  Proof. induction l1 as [|a l IH]; cbn; [reflexivity|rewrite IH; lia]. Qed.

  Lemma sum_w_const l w : (forall x, In x l -> weight x = w) -> sum_w l = (length l * w)%nat.
  Proof. induction l as [|a l IH]; intros H; cbn; [reflexivity|]. rewrite IH, (H a); [lia|left; reflexivity|intros x Hx; apply H; right; exact Hx]. Qed.

  Lemma pow_pos a b : (0 < Nat.pow (S a) b)%nat.
  Proof. induction b as [|b IH]; cbn [Nat.pow]; nia. Qed.

  Lemma filter_length_le {A} (f : A -> bool) l : (length (filter f l) <= length l)%nat.
  Proof. induction l as [|a l IH]; cbn; [lia|destruct (f a); cbn; lia]. Qed.

  (* Every delivery strictly decreases the measure: no infinite sequence of deliveries exists,
     whatever the topology and the order. *)
  Theorem delivery_decreases s s' : reachable s -> is_delivery nodes adj s s' -> (mu s' < mu s)%nat.
  Proof.
    intros Hr [Hst Hann]. destruct (reachable_inv2 s Hr) as [_ _ J3 _ _ _ _ _ J8].
    unfold Gossip.mu.
    destruct Hst as [s id o Ho Hfresh | s pre m post E Hig | s pre m post E Hh | s pre m post E Hno Hnh]; cbn in *.
    - exfalso. assert (L : length ((id, o) :: announced s) = length (announced s)) by (rewrite Hann; reflexivity). cbn in L. lia.
    - rewrite E, !sum_w_app. cbn. assert (0 < weight m)%nat by (unfold Gossip.weight; apply pow_pos). lia.
    - rewrite E, !sum_w_app. cbn. assert (0 < weight m)%nat by (unfold Gossip.weight; apply pow_pos). lia.
    - rewrite E, !sum_w_app. cbn [Gossip.sum_w].
      assert (Hm : In m (pre ++ m :: post)) by apply in_elt. rewrite <- E in Hm.
      destruct (J3 m Hm) as [Hmh _]. destruct (J8 m Hmh) as (_ & Hto & Hhn).
      assert (Hlen : (S (length (g_hops m)) <= length nodes)%nat).
      { change (S (length (g_hops m))) with (length (g_to m :: g_hops m)). apply NoDup_incl_length.
        - constructor; [exact Hnh|]. destruct (J8 m Hmh) as (Hp & _ & _). unfold path_of in Hp. inversion Hp as [|a l _ Hnd]; subst.
          apply NoDup_remove_1 in Hnd. rewrite app_nil_r in Hnd. apply NoDup_rev in Hnd. rewrite rev_involutive in Hnd. exact Hnd.
        - intros x [<-|Hx]; [exact Hto|apply Hhn; exact Hx]. }
      set (n := length nodes) in *. set (h := length (g_hops m)) in *.
      assert (Hw : sum_w (fwd_msgs (g_to m) m) = (length (fwd_msgs (g_to m) m) * Nat.pow (S n) (n - S h))%nat).
      { apply sum_w_const. intros x Hx. unfold Gossip.fwd_msgs in Hx. apply in_map_iff in Hx. destruct Hx as (y & <- & _). reflexivity. }
      rewrite Hw. unfold Gossip.fwd_msgs. rewrite map_length.
      assert (Hl : (length (targets (g_to m) m) <= n)%nat).
      { unfold Gossip.targets, Gossip.neighbours. etransitivity; [apply filter_length_le|apply filter_length_le]. }
      assert (Hwm : weight m = (S n * Nat.pow (S n) (n - S h))%nat).
      { unfold Gossip.weight. fold n h. replace (n - h)%nat with (S (n - S h)) by lia. reflexivity. }
      rewrite Hwm. assert (0 < Nat.pow (S n) (n - S h))%nat by apply pow_pos. nia.
  Qed.
End Proofs.
