(* LinkFrameProofs.v — lemmas about LinkFrame.v (C05). *)
From Verif Require Import Prelude Seq SeqProofs LinkFrame.

Theorem lf_no_panic issued w chunk : snd (lf_unseal issued w chunk) <> Panic.
Proof.
  unfold lf_unseal. destruct (Nat.ltb _ _); [discriminate|]. destruct (chunk_lookup chunk issued); [|discriminate].
  destruct (check w (seq_of chunk)) as [w' [|]]; discriminate.
Qed.

(* sequence numbers of accepted chunks, in order, with the window state threaded through *)
Fixpoint accepted_seqs (issued : list (list N * list N)) (w : sh) (errs : nat) (wire : list N) (fuel : nat) : list N :=
  match fuel with
  | O => []
  | S f =>
    match wire with
    | [] => [] | [_] => []
    | a :: b :: rest =>
      let L := N.to_nat (a * 256 + b) in
      if Nat.leb L 3 then (if Nat.leb 99 errs then [] else accepted_seqs issued w (S errs) rest f)
      else if Nat.ltb (length wire) L then []
      else
        let chunk := firstn L wire in
        let '(w', r) := lf_unseal issued w chunk in
        match r with
        | Ok _ => seq_of chunk :: accepted_seqs issued w' 0 (skipn L wire) f
        | _ => if Nat.leb 99 errs then [] else accepted_seqs issued w' (S errs) (skipn L wire) f
        end
    end
  end.

Lemma chunk_lookup_in c issued inner : chunk_lookup c issued = Some inner -> In (c, inner) issued.
Proof.
  induction issued as [|[w i] t IH]; cbn [chunk_lookup]; [discriminate|].
  destruct (bytes_eqb c w) eqn:E; [|intros H; right; apply IH; exact H].
  intros H. inversion H; subst. apply bytes_eqb_eq in E. subst. left. reflexivity.
Qed.

(* every delivered frame is the inner frame of a link frame the peer sealed — byte for byte *)
Theorem delivered_sound issued fuel : forall w errs wire f,
  In f (delivered_of (read_stream issued w errs wire fuel)) ->
  exists chunk, In (chunk, f) issued.
Proof.
  induction fuel as [|fu IH]; intros w errs wire f Hin; cbn [read_stream delivered_of flat_map] in Hin; [destruct Hin|].
  destruct wire as [|a [|b rest]]; cbn [flat_map app] in Hin; try (destruct Hin; fail).
  destruct (Nat.leb (N.to_nat (a * 256 + b)) 3).
  { destruct (Nat.leb 99 errs); cbn [flat_map app] in Hin; [destruct Hin|]. eapply IH; exact Hin. }
  destruct (Nat.ltb _ _); cbn [flat_map app] in Hin; [destruct Hin|].
  set (chunk := firstn (N.to_nat (a * 256 + b)) (a :: b :: rest)) in *.
  unfold lf_unseal in Hin.
  destruct (Nat.ltb (length chunk) (lf_offset + lf_overhead)).
  { destruct (Nat.leb 99 errs); cbn [flat_map app] in Hin; [destruct Hin|]. eapply IH; exact Hin. }
  destruct (chunk_lookup chunk issued) as [inner|] eqn:Hci.
  2:{ destruct (Nat.leb 99 errs); cbn [flat_map app] in Hin; [destruct Hin|]. eapply IH; exact Hin. }
  destruct (check w (seq_of chunk)) as [w' [|]].
  - cbn [flat_map app] in Hin. destruct Hin as [<-|Hin]; [|eapply IH; exact Hin].
    exists chunk. apply chunk_lookup_in. exact Hci.
  - destruct (Nat.leb 99 errs); cbn [flat_map app] in Hin; [destruct Hin|]. eapply IH; exact Hin.
Qed.

(* the accepted sequence numbers are what the replay window accepts of the sequence numbers
   presented to it, so no link frame is delivered twice (C03) *)
Lemma accepted_seqs_sub issued fuel : forall w errs wire,
  exists l, accepted_seqs issued w errs wire fuel = accepted check w l.
Proof.
  induction fuel as [|fu IH]; intros w errs wire; cbn [accepted_seqs]; [exists []; reflexivity|].
  destruct wire as [|a [|b rest]]; try (exists []; reflexivity).
  destruct (Nat.leb (N.to_nat (a * 256 + b)) 3).
  { destruct (Nat.leb 99 errs); [exists []; reflexivity|apply IH]. }
  destruct (Nat.ltb _ _); [exists []; reflexivity|].
  set (chunk := firstn (N.to_nat (a * 256 + b)) (a :: b :: rest)).
  unfold lf_unseal.
  destruct (Nat.ltb (length chunk) (lf_offset + lf_overhead)).
  { destruct (Nat.leb 99 errs); [exists []; reflexivity|apply IH]. }
  destruct (chunk_lookup chunk issued) as [inner|].
  2:{ destruct (Nat.leb 99 errs); [exists []; reflexivity|apply IH]. }
  destruct (check w (seq_of chunk)) as [w' ok] eqn:Hc. destruct ok.
  - destruct (IH w' 0%nat (skipn (N.to_nat (a * 256 + b)) (a :: b :: rest))) as [l Hl].
    exists (seq_of chunk :: l). cbn [accepted]. rewrite Hc, Hl. reflexivity.
  - destruct (Nat.leb 99 errs); [exists [seq_of chunk]; cbn [accepted]; rewrite Hc; reflexivity|].
    destruct (IH w' (S errs) (skipn (N.to_nat (a * 256 + b)) (a :: b :: rest))) as [l Hl].
    exists (seq_of chunk :: l). cbn [accepted]. rewrite Hc, Hl. reflexivity.
Qed.

Theorem no_second_copy issued fuel errs wire :
  NoDup (accepted_seqs issued sh_init errs wire fuel).
Proof.
  destruct (accepted_seqs_sub issued fuel sh_init errs wire) as [l ->]. apply at_most_once_any_bitmap.
Qed.

(* the reader never runs up more than 100 consecutive errors: the 100th closes the link *)
Fixpoint max_bad_run (evs : list event) (cur best : nat) : nat :=
  match evs with
  | [] => Nat.max cur best
  | Bad :: t => max_bad_run t (S cur) best
  | _ :: t => max_bad_run t 0 (Nat.max cur best)
  end.

Lemma max_bad_run_mono evs : forall cur best, (best <= max_bad_run evs cur best)%nat /\ (cur <= max_bad_run evs cur best)%nat.
Proof.
  induction evs as [|e t IH]; intros cur best; cbn [max_bad_run]; [lia|].
  destruct e; try (destruct (IH 0%nat (Nat.max cur best)); lia). destruct (IH (S cur) best). lia.
Qed.

Theorem bad_run_bounded issued fuel : forall w errs wire best,
  (errs <= 99)%nat -> (best <= 100)%nat ->
  (max_bad_run (read_stream issued w errs wire fuel) errs best <= 100)%nat.
Proof.
  induction fuel as [|fu IH]; intros w errs wire best He Hb; cbn [read_stream max_bad_run]; [lia|].
  destruct wire as [|a [|b rest]]; cbn [max_bad_run]; try lia.
  destruct (Nat.leb (N.to_nat (a * 256 + b)) 3).
  { destruct (Nat.leb_spec 99 errs); cbn [max_bad_run]; [lia|]. apply IH; lia. }
  destruct (Nat.ltb _ _); cbn [max_bad_run]; [lia|].
  destruct (lf_unseal issued w (firstn (N.to_nat (a * 256 + b)) (a :: b :: rest))) as [w' r].
  destruct r as [inner|e|].
  - cbn [max_bad_run]. apply IH; lia.
  - destruct (Nat.leb_spec 99 errs); cbn [max_bad_run]; [lia|]. apply IH; lia.
  - destruct (Nat.leb_spec 99 errs); cbn [max_bad_run]; [lia|]. apply IH; lia.
Qed.

Lemma skipn_add {A} (l : list A) : forall a b, skipn a (skipn b l) = skipn (a + b) l.
Proof.
  intros a b. revert l. induction b as [|b IH]; intros l; [rewrite Nat.add_0_r; reflexivity|].
  destruct l as [|h t]; [rewrite !skipn_nil; reflexivity|].
  replace (a + S b)%nat with (S (a + b)) by lia. cbn [skipn]. apply IH.
Qed.

(* the wire carries header, ciphertext and tag only: every byte of the inner frame sits inside
   the encrypted range [12, len-16) of its link frame *)
Theorem wire_opaque chunk : (lf_offset + lf_overhead <= length chunk)%nat ->
  chunk = firstn lf_offset chunk ++ firstn (length (inner_of chunk)) (skipn lf_offset chunk) ++ skipn (length chunk - lf_overhead) chunk /\
  length (inner_of chunk) = (length chunk - lf_offset - lf_overhead)%nat.
Proof.
  intros H. assert (Hl : length (inner_of chunk) = (length chunk - lf_offset - lf_overhead)%nat).
  { unfold inner_of. rewrite firstn_length, skipn_length. lia. }
  split; [|exact Hl]. rewrite Hl.
  rewrite <- (firstn_skipn lf_offset chunk) at 1. f_equal.
  rewrite <- (firstn_skipn (length chunk - lf_offset - lf_overhead) (skipn lf_offset chunk)) at 1. f_equal.
  rewrite skipn_add. f_equal. unfold lf_offset, lf_overhead in *. lia.
Qed.
