(* StorageProofs.v — crash safety of the state file (C18). *)
From Verif Require Import Prelude Storage.

Lemma written_all base data : written base data (length data) = data ++ skipn (length data) base.
Proof. unfold written. rewrite firstn_all, Nat.min_id. reflexivity. Qed.

Lemma written_trunc data : written [] data (length data) = data.
Proof. rewrite written_all. rewrite skipn_nil, app_nil_r. reflexivity. Qed.

(* one save, cut anywhere: the state file holds what it held before, or the complete new data *)
Theorem save_atomic s data c :
  f_state (save true s data c) = f_state s \/ f_state (save true s data c) = Some data.
Proof.
  destruct c; cbn [save f_state opened]; try (left; reflexivity).
  right. rewrite written_trunc. reflexivity.
Qed.

(* any history of saves and crashes: the state file is absent (never written), still holds its
   initial content, or holds the complete data of one of the saves *)
Theorem run_atomic : forall h s,
  f_state (run true s h) = f_state s \/ exists x, In x h /\ f_state (run true s h) = Some (fst x).
Proof.
  induction h as [|x h IH]; intros s; [left; reflexivity|].
  cbn [run fold_left]. change (fold_left _ h ?a) with (run true a h).
  destruct (IH (save true s (fst x) (snd x))) as [H|(y & Hy & H)].
  - rewrite H. destruct (save_atomic s (fst x) (snd x)) as [E|E]; [left; exact E|].
    right. exists x. split; [left; reflexivity|exact E].
  - right. exists y. split; [right; exact Hy|exact H].
Qed.

(* hence the next start always finds a loadable file *)
Theorem run_loads valid h s :
  loads valid s = true -> Forall (fun x => valid (fst x) = true) h -> loads valid (run true s h) = true.
Proof.
  intros Hs Hv. unfold loads in *. destruct (run_atomic h s) as [H|(x & Hx & H)]; rewrite H; [exact Hs|].
  rewrite Forall_forall in Hv. apply Hv. exact Hx.
Qed.

(* a completed save leaves exactly the new data and no temporary file *)
Theorem save_complete s data : save true s data CNone = mkFs (Some data) None.
Proof. cbn [save opened]. rewrite written_trunc. reflexivity. Qed.

(* --- what goes wrong without these two ingredients --- *)
(* in-place writing (pinned tree, D12): a crash in the middle leaves a prefix *)
Theorem save_pinned_refuted : exists s data c,
  f_state (save_pinned s data c) <> f_state s /\ f_state (save_pinned s data c) <> Some data.
Proof. exists (mkFs (Some [1;2;3]) None), [4;5;6], (CWrite 1). cbn. split; discriminate. Qed.

(* without O_TRUNC: a crashed save leaves a long temporary file; a later shorter save keeps its tail *)
Theorem save_notrunc_refuted : exists s h,
  f_state (run false s h) <> f_state s /\ forall x, In x h -> f_state (run false s h) <> Some (fst x).
Proof.
  exists (mkFs None None), [([1;2;3;4;5], CBeforeRename); ([7;8], CNone)].
  cbn. split; [discriminate|]. intros x [<-|[<-|[]]]; cbn; discriminate.
Qed.

(* ---------- sessions ---------- *)
Section SessionProofs.
  Variable M : Type.
  Variable ser : M -> list N.
  Variable de : list N -> option M.
  Hypothesis codec : forall m, de (ser m) = Some m.

  (* what the storage holds when it stops is what the next start loads — whatever the session
     did, look-ups only included *)
  Theorem session_roundtrip s m0 ops :
    exists d, f_state (session M ser s m0 ops) = Some d /\ de d = Some (fold_left (sapply M) ops m0).
  Proof.
    unfold session. rewrite save_complete. exists (ser (fold_left (sapply M) ops m0)). split; [reflexivity|apply codec].
  Qed.
End SessionProofs.

(* skipping the save of a session without write operations loses what its look-ups changed *)
Theorem session_skip_refuted : exists (ser : N -> list N) (de : list N -> option N),
  (forall m, de (ser m) = Some m) /\
  exists s m0 ops, (match f_state (session_skip_unmodified N ser s m0 ops) with
                    | Some d => de d | None => None end) <> Some (fold_left (sapply N) ops m0).
Proof.
  exists (fun m => [m]), (fun d => match d with [m] => Some m | _ => None end). split; [reflexivity|].
  exists (mkFs (Some [5]) None), 5, [SLookup N (fun m => m + 1)]. cbn. discriminate.
Qed.
