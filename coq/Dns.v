(* Dns.v — executable model of the built-in resolver (api/dns/dns.go: handleRequest, Lookup).
   Names are byte strings; configuration values are the decoded, cleaned structures the server
   reads at query time (Config.Resolve, Config.FriendsByName, the mapping storage). *)
From Verif Require Import Prelude.

Definition name := list N.

Definition lower_byte (b : N) : N := if (65 <=? b) && (b <=? 90) then b + 32 else b.
Definition to_lower (n : name) : name := map lower_byte n.

Definition has_suffix (n suf : name) : bool :=
  if Nat.ltb (length n) (length suf) then false
  else bytes_eqb (skipn (length n - length suf) n) suf.
Definition trim_suffix (n suf : name) : name :=
  if has_suffix n suf then firstn (length n - length suf) n else n.
Definition cut_suffix (n suf : name) : option name :=
  if has_suffix n suf then Some (firstn (length n - length suf) n) else None.

(* ".myco." , ".myco" , "." *)
Definition tld_between_dots : name := [46; 109; 121; 99; 111; 46].
Definition dot_tld : name := [46; 109; 121; 99; 111].
Definition dot : name := [46].

Definition s_router : name := [114;111;117;116;101;114] ++ dot_tld.     (* router.myco *)
Definition s_open : name := [111;112;101;110] ++ dot_tld.               (* open.myco *)
Definition s_wpad : name := [119;112;97;100] ++ dot_tld.                (* wpad.myco *)
Definition s_mycomyco : name := [109;121;99;111] ++ dot_tld.            (* myco.myco *)
Definition api_names : list name := [s_router; s_open].
Definition forbidden_names : list name := [s_wpad; s_mycomyco].

Record dcfg := mkDcfg {
  d_api : N;                           (* config.DefaultAPIAddress *)
  d_resolve : list (name * N);         (* Config.Resolve (keys cleaned by the parser) *)
  d_friends : list (name * N);         (* friends in configuration order; the map keeps the last *)
  d_mappings : list (name * N)         (* stored mappings; the map keeps the last saved *)
}.

Fixpoint map_get (k : name) (l : list (name * N)) (acc : option N) : option N :=
  match l with
  | [] => acc
  | (k', v) :: t => map_get k t (if bytes_eqb k k' then Some v else acc)
  end.

Definition src_none : N := 0.
Definition src_internal : N := 1.
Definition src_resolve : N := 2.
Definition src_forbidden : N := 3.
Definition src_friend : N := 4.
Definition src_mapping : N := 5.

Definition name_in (n : name) (l : list name) : bool := existsb (bytes_eqb n) l.

Definition friend_get (c : dcfg) (n : name) : option N :=
  match cut_suffix n dot_tld with Some f => map_get f (d_friends c) None | None => None end.

(* Server.Lookup *)
Definition lookup (c : dcfg) (n : name) : N * N :=      (* (address, source) *)
  if name_in n api_names then (d_api c, src_internal)
  else match map_get n (d_resolve c) None with
  | Some ip => (ip, src_resolve)
  | None =>
    if name_in n forbidden_names then (0, src_forbidden)
    else match friend_get c n with
    | Some ip => (ip, src_friend)
    | None =>
      match map_get n (d_mappings c) None with
      | Some ip => (ip, src_mapping)
      | None => (0, src_none)
      end
    end
  end.

(* query type / class filters *)
Definition type_ok (t : N) : bool := (t =? 1) || (t =? 28) || (t =? 64) || (t =? 65) || (t =? 255).
Definition class_ok (c : N) : bool := (c =? 1) || (c =? 255).

Definition rcode_success : N := 0.
Definition rcode_nxdomain : N := 3.

(* handleRequest: questions -> (rcode, answer address, source); a name error carries no answer *)
Definition handle_request (c : dcfg) (qs : list (name * N * N)) : res (N * N * N) :=
  match qs with
  | [] => Ok (rcode_nxdomain, 0, src_none)
  | (qn, qt, qc) :: _ =>
    let ln := to_lower qn in
    if negb (has_suffix ln tld_between_dots) then Ok (rcode_nxdomain, 0, src_none)
    else if negb (type_ok qt) then Ok (rcode_nxdomain, 0, src_none)
    else if negb (class_ok qc) then Ok (rcode_nxdomain, 0, src_none)
    else
      let '(ip, s) := lookup c (trim_suffix ln dot) in
      if (s =? src_internal) || (s =? src_resolve) || (s =? src_friend) || (s =? src_mapping)
      then Ok (rcode_success, ip, s) else Ok (rcode_nxdomain, 0, src_none)
  end.

(* the handler as it stood on the pinned tree: r.Question[0] without a length check *)
Definition handle_request_pinned (c : dcfg) (qs : list (name * N * N)) : res (N * N * N) :=
  match qs with
  | [] => Panic
  | _ => handle_request c qs
  end.
