(* GossipRefine.v — C09: what one real router does with one announcement (Control.handle_announce,
   the function the harness replays real deliveries through) IS one step of the flooding protocol
   of Gossip.v, for which reach, loop-freedom, at-most-once and termination are proved:
     rejected / looping            ->  GIgnore  (nothing changes)
     route added                   ->  GAdd     (the router now holds a route to the origin and
                                                 forwards to exactly the protocol's target set)
     route not added               ->  GDrop    (it already held a route to the origin) —
                                                 unless the origin is a new gossip destination
                                                 whose routing prefix is over its limit
   in an honest mesh: no lite links, announcements addressed to all routers, and AddRoute does not
   report an error (valid expiry and switch labels). *)
From Verif Require Import Prelude SwitchLabel Table TableProofs TableSorted Control ControlProofs Gossip.

Definition knows (t : list entry) (o : N) : Prop := exists e, In e t /\ e_dst e = o.
Definition peers_of (links : list lnk) : list N := map (fun l : lnk => fst (fst (fst l))) links.

(* the abstract frame a delivered announcement corresponds to: hop list = the signers of the
   attached records, outermost (most recent) first *)
Definition amsg (id : N) (a : ann) (recv : lnk) (self : N) : msg :=
  mkMsg id (a_origin a) (map r_signer (a_chain a)) (fst (fst (fst recv))) self.

(* the route the handler builds from an accepted announcement *)
Definition ann_route (self : N) (recv : lnk) (a : ann) : entry :=
  let '(peer, label, latency, _) := recv in
  let hops := map (fun r => mkHop (r_signer r) (r_delay r) (r_fl r) (r_rl r)) (a_chain a) in
  mkEntry (a_origin a) 0 0 peer (mkHop self latency label 0 :: hops ++ [mkHop (a_origin a) 0 0 (a_retlabel a)]) (a_stub a)
          (match hops with [] => src_peer | _ => src_gossip end)
          (match hops with [] => 0%Z | _ => a_expires a end) 0 0.

(* the protocol's target set, over the router's links *)
Definition is_target (links : list lnk) (m : msg) (x : N) : Prop :=
  In x (peers_of links) /\ x <> g_origin m /\ x <> g_from m /\ ~ In x (g_hops m).

Theorem delivery_refines cfg self now t links recv a id :
  sorted t -> tpwf t ->
  (forall l, In l links -> snd l = false) ->
  a_dst_all a = true ->
  (forall c, add_route cfg now t (ann_route self recv a) <> Err c) ->
  let m := amsg id a recv self in
  match handle_announce cfg self false false now t links recv a with
  | None => True
  | Some (t', true, fw) => knows t' (g_origin m) /\ (forall x, In x fw <-> is_target links m x)
  | Some (t', false, fw) =>
      t' = t /\ fw = [] /\
      (knows t (g_origin m) \/
       ((forall x, In x t -> e_dst x <> g_origin m) /\ e_source (ann_route self recv a) = src_gossip))
  end.
Proof.
  intros Hs Hw Hlite Hall Hne m.
  destruct (handle_announce cfg self false false now t links recv a) as [[[t' added] fw]|] eqn:H; [|exact I].
  destruct added.
  - (* added: GAdd *)
    split.
    + destruct (accepted_route_shape _ _ _ _ _ _ _ _ _ _ _ H) as (e & Hin & Hd & _). exists e. split; [exact Hin|exact Hd].
    + intros x. unfold is_target, m, amsg. cbn [g_origin g_from g_hops]. split.
      * intros Hx. destruct (forward_targets _ _ _ _ _ _ _ _ _ _ _ _ _ H Hx) as (A & B & C & (l & Hl & El)).
        split; [|auto]. unfold peers_of. apply in_map_iff. exists l. auto.
      * intros (Hp & A & B & C). unfold peers_of in Hp. apply in_map_iff in Hp. destruct Hp as ([[[lp ll] lt] llite] & El & Hl).
        cbn [fst] in El. subst lp.
        apply (forward_targets_complete cfg self false now t links recv a t' fw x ll lt llite H Hall Hl); auto.
        intros Hl1. specialize (Hlite _ Hl). cbn [snd] in Hlite. congruence.
  - (* not added: GDrop (or the prefix is full) *)
    revert H. unfold handle_announce, ann_route in *. destruct recv as [[[peer label] latency] rl]. cbn [fst snd] in *.
    destruct (parse_chain self (a_chain a) 1) as [hops| |] eqn:Hp; try discriminate.
    destruct (parse_chain_hops _ _ _ _ Hp) as [Hh _]. subst hops.
    destruct (match map _ (a_chain a) with [] => negb (a_origin a =? peer) | h :: _ => negb (h_router h =? peer) end); [discriminate|].
    match goal with |- context [add_route cfg now t ?E] => set (e0 := E) in * end.
    destruct (add_route cfg now t e0) as [[t1 ad]|c|] eqn:Ha.
    + destruct ad; [intros H; inversion H|]. intros H. inversion H; subst t1 fw.
      pose proof (add_route_not_added _ _ _ _ _ Ha) as Et. split; [exact Et|]. split; [reflexivity|].
      subst t'. destruct (not_added_has_route_or_full _ _ _ _ _ Hs Hw Ha) as [(x & Hx & Dx)|[Hno Hg]].
      * left. exists x. split; [exact Hx|exact Dx].
      * right. split; [exact Hno|exact Hg].
    + exfalso. exact (Hne c eq_refl).
    + discriminate.
Qed.

(* a looping announcement (the router's own address among the signers) is ignored: nothing is
   handled, nothing is forwarded — the protocol's GIgnore *)
Theorem looping_ignored cfg self lite stub now t links recv a :
  In self (map r_signer (a_chain a)) ->
  handle_announce cfg self lite stub now t links recv a = None.
Proof.
  intros Hin. unfold handle_announce. destruct recv as [[[peer label] latency] rl].
  assert (G : forall ch layer, In self (map r_signer ch) -> forall hops, parse_chain self ch layer <> PHops hops).
  { induction ch as [|r ch IH]; intros layer Hi hops; [destruct Hi|]. cbn [parse_chain].
    destruct (Nat.leb 100 layer); [discriminate|].
    destruct (N.eqb_spec (r_signer r) self) as [E|E]; [discriminate|].
    destruct Hi as [Hi|Hi]; [cbn in Hi; contradiction|].
    destruct (negb (r_known r || r_id_ok r)); [discriminate|]. destruct (negb (r_sig_ok r)); [discriminate|].
    destruct (parse_chain self ch (S layer)) eqn:Hp; try discriminate. exfalso. exact (IH _ Hi _ Hp). }
  destruct (parse_chain self (a_chain a) 1) as [hops| |] eqn:Hp; [exfalso; exact (G _ _ Hin _ Hp)|reflexivity|reflexivity].
Qed.

(* ---------- router-local facts for the network-level simulation ---------- *)
From Verif Require Import TableBounds.

(* the per-prefix admission lets the route in (the honest-mesh side condition "limits not reached") *)
Definition admissible (cfg : list rprefix) (t : list entry) (e0 : entry) : Prop :=
  forall rp, rp_for cfg (e_dst e0) = Some rp ->
    let '(pa, pb) := if 0 <? rp_rbits rp then (mask (e_dst e0) (rp_rbits rp), rp_rbits rp) else (e_paddr e0, e_pbits e0) in
    let '(ps, pe) := prefix_section t pa pb in (pe - ps <= rp_limit rp * 2)%nat.

(* AddRoute touches only the routes to the destination of the new route *)
Lemma add_route_other_dst cfg now t e0 t' b d :
  sorted t -> tpwf t -> add_route cfg now t e0 = Ok (t', b) -> d <> e_dst e0 ->
  cnt (is_d d) t' = cnt (is_d d) t.
Proof.
  intros Hs Hw Ha Hd. revert Ha. unfold add_route.
  destruct (rp_for cfg (e_dst e0)) as [rp|]; [|discriminate].
  destruct (if 0 <? rp_rbits rp then _ else _) as [pa pb].
  repeat match goal with |- context [if ?c then Err _ else _] => destruct c; [discriminate|] end.
  match goal with |- context [match ?c with Ok _ => _ | Err _ => _ | Panic => _ end] => destruct c as [exp2|?|] end; try discriminate.
  destruct (build_blocks (labels_of (e_path e0))); try discriminate.
  set (e := mkEntry (e_dst e0) pa pb (e_nexthop e0) (e_path e0) (e_stub e0) (e_source e0) exp2 (calc_thops (e_path e0)) (calc_tdelay (e_path e0) (e_tdelay e0))).
  pose proof (tpwf_twf t Hw) as Htw.
  destruct (dst_section t (e_dst e)) as [s en] eqn:Hsec.
  destruct (dst_section_spec t (e_dst e) s en Hs Htw Hsec) as (Hbnd & Hlo & Hmid & Hhi).
  assert (Fe : is_d d e = false) by (unfold is_d; apply N.eqb_neq; cbn [e e_dst]; congruence).
  assert (Hins : forall i, cnt (is_d d) (insert_at t i e) = cnt (is_d d) t).
  { intros i. rewrite (cnt_perm _ _ _ (insert_at_perm t i e)), cnt_cons, Fe. reflexivity. }
  assert (Hrep : forall i, (s <= i < en)%nat -> cnt (is_d d) (sort_section (replace_at t i e) s en) = cnt (is_d d) t).
  { intros i Hi. rewrite (cnt_perm _ _ _ (sort_section_perm _ s en ltac:(lia))).
    destruct (nth_error t i) as [x|] eqn:Hx; [|apply nth_error_None in Hx; lia].
    pose proof (cnt_replace_at (is_d d) t i x e Hx) as A. rewrite Fe in A.
    assert (Fx : is_d d x = false).
    { unfold is_d. apply N.eqb_neq. assert (e_dst x = e_dst e); [|cbn [e e_dst] in *; congruence].
      apply Hmid. apply (nth_error_In _ (i - s)). rewrite nth_error_skipn_firstn by lia. replace (s + (i - s))%nat with i by lia. exact Hx. }
    rewrite Fx in A. lia. }
  destruct (Nat.leb_spec en s) as [Hle|Hgt].
  - match goal with |- context [if ?c then Ok (t, false) else _] => destruct c end; intros H; inversion H; subst; [reflexivity|apply Hins].
  - match goal with |- context [if ?b then Ok (t, false) else _] => destruct b end; [intros H; inversion H; reflexivity|].
    match goal with |- context [match ?f with Some _ => _ | None => _ end] => destruct f as [i|] eqn:Hf end.
    + intros H. inversion H; subst. apply Hrep. apply find_eq_range in Hf. rewrite firstn_length, skipn_length in Hf. lia.
    + match goal with |- context [if ?c then Ok (insert_at _ _ _, true) else _] => destruct c eqn:Hc3 end; [intros H; inversion H; subst; apply Hins|].
      destruct (nth_error t (s + 2)) as [third|] eqn:Hth; [|discriminate].
      destruct (std_cmp e third <? 0)%Z; intros H; inversion H; subst; [|reflexivity].
      apply Hrep. apply orb_false_iff in Hc3. destruct Hc3 as [Hc3 _]. apply Nat.ltb_ge in Hc3. lia.
Qed.

(* an admissible route that is not added finds at least three routes to its destination *)
Lemma not_added_three cfg now t e0 t' :
  sorted t -> tpwf t -> admissible cfg t e0 -> add_route cfg now t e0 = Ok (t', false) ->
  (3 <= cnt (is_d (e_dst e0)) t)%nat.
Proof.
  intros Hs Hw Hadm. unfold add_route, admissible in *.
  destruct (rp_for cfg (e_dst e0)) as [rp|]; [|discriminate]. specialize (Hadm rp eq_refl).
  destruct (if 0 <? rp_rbits rp then _ else _) as [pa pb].
  repeat match goal with |- context [if ?c then Err _ else _] => destruct c; [discriminate|] end.
  match goal with |- context [match ?c with Ok _ => _ | Err _ => _ | Panic => _ end] => destruct c as [exp2|?|] end; try discriminate.
  destruct (build_blocks (labels_of (e_path e0))); try discriminate.
  cbn [e_dst e_source].
  destruct (prefix_section t pa pb) as [ps pe]. apply Nat.ltb_ge in Hadm.
  pose proof (tpwf_twf t Hw) as Htw.
  destruct (dst_section t (e_dst e0)) as [s en] eqn:Hsec.
  rewrite (section_count t (e_dst e0) s en Hs Htw Hsec).
  destruct (Nat.leb_spec en s) as [Hle|Hgt].
  - rewrite Hadm. destruct (e_source e0 =? src_gossip); intros H; inversion H.
  - rewrite Hadm, andb_false_r.
    match goal with |- context [match ?f with Some _ => _ | None => _ end] => destruct f as [i|] end; [intros H; inversion H|].
    match goal with |- context [if ?c then Ok (insert_at _ _ _, true) else _] => destruct c eqn:Hc3 end; [intros H; inversion H|].
    intros _. apply orb_false_iff in Hc3. destruct Hc3 as [Hc3 _]. apply Nat.ltb_ge in Hc3. exact Hc3.
Qed.
