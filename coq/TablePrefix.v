(* TablePrefix.v — C11: gossip routes per routing prefix stay within 3*(2*limit+1), for every
   operation sequence (after fix D21: the first gossip route to a known destination passes the
   same per-prefix admission as a new destination).
   Configurations: every routable prefix has 0 < base bits <= routing bits <= 128 (true of
   GetRoutablePrefixesFor and of the default configuration; checked on every configuration the
   harness uses). *)
From Coq Require Import Permutation.
From Verif Require Import Prelude SwitchLabel Table TableProofs TableSorted TableBounds.

(* ---------- prefixes as blocks of addresses ---------- *)
Definition blk (ip bits : N) : N := N.shiftr ip (128 - bits).

Lemma prefix_contains_blk paddr pbits ip : prefix_contains paddr pbits ip = (blk ip pbits =? blk paddr pbits).
Proof. reflexivity. Qed.

Lemma mask_blk ip b : mask ip b = N.shiftl (blk ip b) (128 - b).
Proof. reflexivity. Qed.

Lemma shiftr_shiftl_id x k : N.shiftr (N.shiftl x k) k = x.
Proof. rewrite N.shiftr_shiftl_l by apply N.le_refl. rewrite N.sub_diag. apply N.shiftl_0_r. Qed.

Lemma blk_mask ip b : blk (mask ip b) b = blk ip b.
Proof. unfold mask, blk. apply shiftr_shiftl_id. Qed.

(* coarser blocks are determined by finer ones *)
Lemma blk_coarser ip1 ip2 b c : c <= b -> b <= 128 -> blk ip1 b = blk ip2 b -> blk ip1 c = blk ip2 c.
Proof.
  intros Hcb Hb H. unfold blk in *.
  replace (128 - c) with ((128 - b) + (b - c)) by lia.
  rewrite <- !N.shiftr_shiftr. rewrite H. reflexivity.
Qed.

Lemma mask_idem ip b : mask (mask ip b) b = mask ip b.
Proof. unfold mask. rewrite shiftr_shiftl_id. reflexivity. Qed.

Lemma mask_le ip b : mask ip b <= ip.
Proof.
  unfold mask. rewrite N.shiftr_div_pow2, N.shiftl_mul_pow2.
  rewrite N.mul_comm. apply N.mul_div_le. apply N.pow_nonzero. discriminate.
Qed.

Lemma ip_le_last ip b : ip <= prefix_last (mask ip b) b.
Proof.
  unfold prefix_last. rewrite (mask_blk (mask ip b) b), blk_mask, <- mask_blk.
  unfold mask. rewrite N.shiftr_div_pow2, N.shiftl_mul_pow2.
  pose proof (N.div_mod ip (2 ^ (128 - b)) (N.pow_nonzero 2 (128 - b) ltac:(discriminate))) as E.
  pose proof (N.mod_lt ip (2 ^ (128 - b)) (N.pow_nonzero 2 (128 - b) ltac:(discriminate))) as L.
  rewrite (N.mul_comm (ip / _)). lia.
Qed.

(* ---------- configurations ---------- *)

Lemma rp_for_in cfg d rp : rp_for cfg d = Some rp -> In rp cfg /\ prefix_contains (rp_addr rp) (rp_bits rp) d = true.
Proof.
  induction cfg as [|r t IH]; [discriminate|]. cbn [rp_for]. destruct (prefix_contains (rp_addr r) (rp_bits r) d) eqn:E.
  - intros H. inversion H; subst. split; [left; reflexivity|exact E].
  - intros H. destruct (IH H). split; [right; assumption|assumption].
Qed.

Lemma rp_for_ok cfg d rp : cfg_ok cfg = true -> rp_for cfg d = Some rp ->
  0 < rp_rbits rp /\ rp_bits rp <= rp_rbits rp /\ rp_rbits rp <= 128.
Proof.
  intros Hc Hr. destruct (rp_for_in _ _ _ Hr) as [Hin _]. unfold cfg_ok in Hc. rewrite forallb_forall in Hc.
  specialize (Hc rp Hin). unfold rp_ok in Hc. rewrite !andb_true_iff in Hc. destruct Hc as [[A B] C].
  apply N.ltb_lt in A. apply N.leb_le in B, C. auto.
Qed.

(* the first matching configuration is determined by mutual containment *)
Lemma rp_for_same cfg : forall d1 d2 rp1 rp2,
  rp_for cfg d1 = Some rp1 -> rp_for cfg d2 = Some rp2 ->
  prefix_contains (rp_addr rp1) (rp_bits rp1) d2 = true ->
  prefix_contains (rp_addr rp2) (rp_bits rp2) d1 = true -> rp1 = rp2.
Proof.
  induction cfg as [|r t IH]; intros d1 d2 rp1 rp2 H1 H2 C12 C21; [discriminate|]. cbn [rp_for] in H1, H2.
  destruct (prefix_contains (rp_addr r) (rp_bits r) d1) eqn:E1.
  - inversion H1; subst. rewrite C12 in H2. inversion H2. reflexivity.
  - destruct (prefix_contains (rp_addr r) (rp_bits r) d2) eqn:E2.
    + inversion H2; subst. rewrite C21 in E1. discriminate.
    + eapply IH; eassumption.
Qed.

(* two destinations in the same routing block, under routing bits that are at least the base
   bits of their configurations, have the same configuration *)
Lemma same_block_same_rp cfg d1 d2 rp1 rp2 : cfg_ok cfg = true ->
  rp_for cfg d1 = Some rp1 -> rp_for cfg d2 = Some rp2 ->
  rp_rbits rp1 = rp_rbits rp2 -> blk d1 (rp_rbits rp1) = blk d2 (rp_rbits rp1) -> rp1 = rp2.
Proof.
  intros Hc H1 H2 Hb Hblk.
  destruct (rp_for_ok _ _ _ Hc H1) as (_ & B1 & T1). destruct (rp_for_ok _ _ _ Hc H2) as (_ & B2 & T2).
  destruct (rp_for_in _ _ _ H1) as [_ C1]. destruct (rp_for_in _ _ _ H2) as [_ C2].
  rewrite prefix_contains_blk in C1, C2. apply N.eqb_eq in C1, C2.
  apply (rp_for_same cfg d1 d2 rp1 rp2 H1 H2); rewrite prefix_contains_blk; apply N.eqb_eq.
  - rewrite <- C1. symmetry. apply (blk_coarser d1 d2 (rp_rbits rp1)); assumption.
  - rewrite <- C2. rewrite Hb in Hblk. apply (blk_coarser d1 d2 (rp_rbits rp2)); [assumption|assumption|exact Hblk].
Qed.

Definition lim_of (cfg : list rprefix) (d : N) : nat :=
  match rp_for cfg d with Some rp => rp_limit rp | None => O end.

(* ---------- what AddRoute stores as routing prefix ---------- *)
Definition pinv (cfg : list rprefix) (t : list entry) : Prop :=
  forall e, In e t -> exists rp, rp_for cfg (e_dst e) = Some rp /\
                                 e_paddr e = mask (e_dst e) (rp_rbits rp) /\ e_pbits e = rp_rbits rp.

Lemma pinv_sub cfg t t' : pinv cfg t -> (forall x, In x t' -> In x t) -> pinv cfg t'.
Proof. intros H Hs e He. apply H, Hs, He. Qed.

Lemma same_prefix_same_limit cfg t x y : cfg_ok cfg = true -> pinv cfg t -> In x t -> In y t ->
  e_paddr x = e_paddr y -> e_pbits x = e_pbits y -> lim_of cfg (e_dst x) = lim_of cfg (e_dst y).
Proof.
  intros Hc Hp Hx Hy Ea Eb. destruct (Hp x Hx) as (rx & Rx & Ax & Bx). destruct (Hp y Hy) as (ry & Ry & Ay & By).
  assert (rx = ry).
  { apply (same_block_same_rp cfg (e_dst x) (e_dst y) rx ry Hc Rx Ry); [congruence|].
    rewrite <- (blk_mask (e_dst x)), <- (blk_mask (e_dst y)). rewrite <- Ax.
    replace (rp_rbits rx) with (rp_rbits ry) at 2 by congruence. rewrite <- Ay. congruence. }
  unfold lim_of. rewrite Rx, Ry. congruence.
Qed.

(* ---------- the section of a routing prefix holds every route whose destination lies in it ---------- *)
Lemma prefix_section_holds t pa pb ps pe :
  sorted t -> twf t -> prefix_section t pa pb = (ps, pe) -> mask pa pb <= prefix_last pa pb ->
  (ps <= pe <= length t)%nat /\
  forall x, In x t -> mask pa pb <= e_dst x <= prefix_last pa pb -> In x (firstn (pe - ps) (skipn ps t)).
Proof.
  intros Hs [Hw Hc] Hd Hlh. unfold prefix_section in Hd. apply pair_equal_spec in Hd. destruct Hd as [E1 E2].
  set (lo := mask pa pb) in *. set (hi := prefix_last pa pb) in *.
  destruct (sorted_split t (probe lo 0 0) Hs) as (k1 & Hsp1 & Hf1 & Hk1); [intros a Ha; apply compat_probe; [apply Hw; exact Ha|left; reflexivity]|exact Hc|].
  destruct (sorted_split t (probe hi 255 65535) Hs) as (k2 & Hsp2 & Hf2 & Hk2); [intros a Ha; apply compat_probe; [apply Hw; exact Ha|right; reflexivity]|exact Hc|].
  rewrite (bsearch_index _ _ _ _ Hsp1) in E1. rewrite (bsearch_index _ _ _ _ Hsp2) in E2. subst ps pe.
  assert (Hle : (k1 <= k2)%nat).
  { destruct (Nat.le_gt_cases k1 k2) as [H|H]; [exact H|exfalso].
    destruct Hsp1 as (L1 & Lo1 & _). destruct Hsp2 as (L2 & _ & Hi2).
    destruct (nth_error t k2) as [e|] eqn:He; [|apply nth_error_None in He; lia].
    pose proof (Lo1 k2 e H He) as A. pose proof (Hi2 k2 e (le_n _) He) as B. unfold lt_t in A, B.
    apply Z.ltb_lt in A. apply Z.ltb_ge in B. pose proof (nth_error_In _ _ He) as Hi.
    apply (probe_lo_lt e lo (Hw e Hi)) in A.
    assert (~ (e_dst e <= hi)) by (intros C; apply (probe_hi_lt e hi (Hw e Hi)) in C; lia). lia. }
  split; [destruct Hsp2 as (L2 & _); lia|].
  intros x Hx [Hxl Hxh]. rewrite (decomp3 t k1 k2 Hle) in Hx. apply in_app_or in Hx. destruct Hx as [Hx|Hx].
  - exfalso. pose proof (Hf1 x Hx) as A. apply (probe_lo_lt x lo (Hw x (in_firstn_sub x _ _ Hx))) in A. lia.
  - apply in_app_or in Hx. destruct Hx as [Hx|Hx]; [exact Hx|exfalso].
    pose proof (Hk2 x Hx) as A.
    assert (B : (std_cmp x (probe hi 255 65535) < 0)%Z) by (apply (probe_hi_lt x hi (Hw x (in_skipn_sub x _ _ Hx))); exact Hxh). lia.
Qed.

(* ---------- gossip destinations of a routing prefix ---------- *)
Definition in_gp (pa pb : N) (e : entry) : bool :=
  (e_source e =? src_gossip) && (e_paddr e =? pa) && (e_pbits e =? pb).
Definition gdsts (t : list entry) (pa pb : N) : list N :=
  nodup N.eq_dec (map e_dst (filter (in_gp pa pb) t)).

Lemma in_gdsts t pa pb d : In d (gdsts t pa pb) <-> exists e, In e t /\ in_gp pa pb e = true /\ e_dst e = d.
Proof.
  unfold gdsts. rewrite nodup_In, in_map_iff. split.
  - intros (e & Hd & He). apply filter_In in He. exists e. tauto.
  - intros (e & Hi & Hg & Hd). exists e. split; [exact Hd|apply filter_In; auto].
Qed.

Lemma gdsts_incl_length t t' pa pb :
  (forall d, In d (gdsts t' pa pb) -> In d (gdsts t pa pb)) -> (length (gdsts t' pa pb) <= length (gdsts t pa pb))%nat.
Proof. intros H. apply NoDup_incl_length; [apply NoDup_nodup|exact H]. Qed.

Lemma gdsts_sub t t' pa pb : (forall x, In x t' -> In x t) -> (length (gdsts t' pa pb) <= length (gdsts t pa pb))%nat.
Proof.
  intros Hs. apply gdsts_incl_length. intros d Hd. apply in_gdsts in Hd. destruct Hd as (e & Hi & Hg & Hd).
  apply in_gdsts. exists e. auto.
Qed.

(* adding one entry adds at most one gossip destination *)
Lemma gdsts_add t t' e pa pb : (forall x, In x t' -> x = e \/ In x t) ->
  (length (gdsts t' pa pb) <= S (length (gdsts t pa pb)))%nat.
Proof.
  intros Hs.
  assert (Hincl : incl (gdsts t' pa pb) (e_dst e :: gdsts t pa pb)).
  { intros d Hd. apply in_gdsts in Hd. destruct Hd as (x & Hi & Hg & Hd). destruct (Hs x Hi) as [->|Hx].
    - left. exact Hd.
    - right. apply in_gdsts. exists x. auto. }
  pose proof (NoDup_incl_length (NoDup_nodup N.eq_dec _) Hincl) as L. cbn [length] in L. exact L.
Qed.

(* the gossip destinations of a prefix all lie in the prefix's section *)
Lemma gdsts_le_section cfg t pa pb ps pe : cfg_ok cfg = true -> sorted t -> twf t -> pinv cfg t ->
  prefix_section t pa pb = (ps, pe) -> (exists d rp, rp_for cfg d = Some rp /\ pa = mask d (rp_rbits rp) /\ pb = rp_rbits rp) ->
  (length (gdsts t pa pb) <= pe - ps)%nat.
Proof.
  intros Hc Hs Hw Hp Hsec (d0 & rp0 & R0 & Ea & Eb).
  assert (Hlh : mask pa pb <= prefix_last pa pb).
  { unfold prefix_last. lia. }
  destruct (prefix_section_holds t pa pb ps pe Hs Hw Hsec Hlh) as (Hb & Hin).
  assert (Hincl : incl (gdsts t pa pb) (map e_dst (firstn (pe - ps) (skipn ps t)))).
  { intros d Hd. apply in_gdsts in Hd. destruct Hd as (x & Hx & Hg & Hd). apply in_map_iff. exists x. split; [exact Hd|].
    apply Hin; [exact Hx|]. unfold in_gp in Hg. rewrite !andb_true_iff in Hg. destruct Hg as [[_ Ga] Gb]. apply N.eqb_eq in Ga, Gb.
    destruct (Hp x Hx) as (rx & Rx & Ax & Bx).
    rewrite <- Ga, <- Gb, Ax, Bx. rewrite mask_idem. split; [apply mask_le|apply ip_le_last]. }
  pose proof (NoDup_incl_length (NoDup_nodup N.eq_dec _) Hincl) as L.
  rewrite map_length, firstn_length, skipn_length in L. unfold gdsts. eapply Nat.le_trans; [exact L|apply Nat.le_min_l].
Qed.

(* ---------- the invariant ---------- *)
Definition pbound (cfg : list rprefix) (t : list entry) : Prop :=
  forall e, In e t -> e_source e = src_gossip ->
    (length (gdsts t (e_paddr e) (e_pbits e)) <= 2 * lim_of cfg (e_dst e) + 1)%nat.

Lemma pbound_sub cfg t t' : pbound cfg t -> (forall x, In x t' -> In x t) -> pbound cfg t'.
Proof.
  intros Hb Hs e He Hg. eapply Nat.le_trans; [apply (gdsts_sub t t'); exact Hs|]. apply Hb; [apply Hs; exact He|exact Hg].
Qed.

(* the entry AddRoute builds *)
Lemma existsb_gossip_in sec : existsb (fun x => e_source x =? src_gossip) sec = true ->
  exists g, In g sec /\ e_source g = src_gossip.
Proof. intros H. apply existsb_exists in H. destruct H as (g & Hg & E). exists g. split; [exact Hg|apply N.eqb_eq; exact E]. Qed.

Theorem add_route_prefix cfg now t e0 t' b :
  cfg_ok cfg = true -> sorted t -> tpwf t -> pinv cfg t -> pbound cfg t ->
  add_route cfg now t e0 = Ok (t', b) -> pinv cfg t' /\ pbound cfg t'.
Proof.
  intros Hc Hs Hw Hp Hb. unfold add_route.
  destruct (rp_for cfg (e_dst e0)) as [rp|] eqn:Hrp; [|discriminate].
  destruct (rp_for_ok _ _ _ Hc Hrp) as (Rpos & Rb & R128).
  replace (0 <? rp_rbits rp) with true by (symmetry; apply N.ltb_lt; exact Rpos).
  repeat match goal with |- context [if ?c then Err _ else _] => destruct c; [discriminate|] end.
  match goal with |- context [match ?c with Ok _ => _ | Err _ => _ | Panic => _ end] => destruct c as [exp2|?|] end; try discriminate.
  destruct (build_blocks (labels_of (e_path e0))); try discriminate.
  set (pa := mask (e_dst e0) (rp_rbits rp)). set (pb := rp_rbits rp).
  set (e := mkEntry (e_dst e0) pa pb (e_nexthop e0) (e_path e0) (e_stub e0) (e_source e0) exp2 (calc_thops (e_path e0)) (calc_tdelay (e_path e0) (e_tdelay e0))).
  pose proof (tpwf_twf t Hw) as Htw.
  assert (Pe : exists rp', rp_for cfg (e_dst e) = Some rp' /\ e_paddr e = mask (e_dst e) (rp_rbits rp') /\ e_pbits e = rp_rbits rp')
    by (exists rp; auto).
  (* membership after the three kinds of change *)
  assert (Hpinv : forall t1, (forall x, In x t1 -> x = e \/ In x t) -> pinv cfg t1).
  { intros t1 H1 x Hx. destruct (H1 x Hx) as [->|Hx']; [exact Pe|apply Hp; exact Hx']. }
  (* no new gossip destination: e is not a gossip route, or its destination already is one *)
  assert (Hsame : forall t1, (forall x, In x t1 -> x = e \/ In x t) ->
            (e_source e <> src_gossip \/ In (e_dst e) (gdsts t pa pb)) -> pbound cfg t1).
  { intros t1 H1 Hno x Hx Hg.
    assert (Hle : (length (gdsts t1 (e_paddr x) (e_pbits x)) <= length (gdsts t (e_paddr x) (e_pbits x)))%nat).
    { apply gdsts_incl_length. intros d Hd. apply in_gdsts in Hd. destruct Hd as (y & Hy & Gy & Dy).
      destruct (H1 y Hy) as [->|Hy'].
      - destruct Hno as [Hno|Hno].
        + unfold in_gp in Gy. rewrite !andb_true_iff in Gy. destruct Gy as [[Gs _] _]. apply N.eqb_eq in Gs. contradiction.
        + unfold in_gp in Gy. rewrite !andb_true_iff in Gy. destruct Gy as [[_ Ga] Gb]. apply N.eqb_eq in Ga, Gb.
          cbn [e e_paddr e_pbits] in Ga, Gb. rewrite <- Ga, <- Gb, <- Dy. exact Hno.
      - apply in_gdsts. exists y. auto. }
    destruct (H1 x Hx) as [->|Hx'].
    - (* x = e: a gossip route whose destination is already a gossip destination of (pa, pb) *)
      destruct Hno as [Hno|Hno]; [contradiction|].
      apply in_gdsts in Hno. destruct Hno as (g & Hgi & Gg & Dg).
      unfold in_gp in Gg. rewrite !andb_true_iff in Gg. destruct Gg as [[Gs Ga] Gb]. apply N.eqb_eq in Gs, Ga, Gb.
      eapply Nat.le_trans; [exact Hle|]. cbn [e e_paddr e_pbits e_dst].
      rewrite <- Ga, <- Gb. replace (lim_of cfg (e_dst e0)) with (lim_of cfg (e_dst g)) by (f_equal; exact Dg).
      apply Hb; assumption.
    - eapply Nat.le_trans; [exact Hle|]. apply Hb; assumption. }
  (* a new gossip destination admitted below the limit *)
  assert (Hnew : forall t1 ps pe, (forall x, In x t1 -> x = e \/ In x t) -> In e t1 ->
            prefix_section t pa pb = (ps, pe) -> (pe - ps <= rp_limit rp * 2)%nat -> pbound cfg t1).
  { intros t1 ps pe H1 He1 Hsec Hlim x Hx Hg.
    destruct (N.eq_dec (e_paddr x) pa) as [Ea|Ea]; [destruct (N.eq_dec (e_pbits x) pb) as [Eb|Eb]|].
    - (* the prefix of e: at most one more destination than fits the section *)
      rewrite Ea, Eb.
      assert (L1 : (length (gdsts t1 pa pb) <= S (length (gdsts t pa pb)))%nat) by (apply (gdsts_add t t1 e); exact H1).
      assert (L2 : (length (gdsts t pa pb) <= pe - ps)%nat).
      { apply (gdsts_le_section cfg t pa pb ps pe Hc Hs Htw Hp Hsec). exists (e_dst e0), rp. auto. }
      assert (Elim : lim_of cfg (e_dst x) = rp_limit rp).
      { assert (E1 : lim_of cfg (e_dst x) = lim_of cfg (e_dst e)).
        { apply (same_prefix_same_limit cfg t1 x e Hc (Hpinv t1 H1) Hx He1); cbn [e e_paddr e_pbits]; assumption. }
        rewrite E1. unfold lim_of. cbn [e e_dst]. rewrite Hrp. reflexivity. }
      rewrite Elim. lia.
    - (* other prefixes gain nothing *)
      eapply Nat.le_trans.
      + apply gdsts_incl_length with (t := t). intros d Hd. apply in_gdsts in Hd. destruct Hd as (y & Hy & Gy & Dy).
        destruct (H1 y Hy) as [->|Hy']; [|apply in_gdsts; exists y; auto].
        unfold in_gp in Gy. rewrite !andb_true_iff in Gy. destruct Gy as [[_ Ga'] Gb']. apply N.eqb_eq in Ga', Gb'. cbn [e e_pbits] in Gb'. congruence.
      + destruct (H1 x Hx) as [->|Hx']; [cbn [e e_pbits] in Eb; contradiction|apply Hb; assumption].
    - eapply Nat.le_trans.
      + apply gdsts_incl_length with (t := t). intros d Hd. apply in_gdsts in Hd. destruct Hd as (y & Hy & Gy & Dy).
        destruct (H1 y Hy) as [->|Hy']; [|apply in_gdsts; exists y; auto].
        unfold in_gp in Gy. rewrite !andb_true_iff in Gy. destruct Gy as [[_ Ga'] Gb']. apply N.eqb_eq in Ga', Gb'. cbn [e e_paddr] in Ga'. congruence.
      + destruct (H1 x Hx) as [->|Hx']; [cbn [e e_paddr] in Ea; contradiction|apply Hb; assumption]. }
  assert (Hinsert : forall i x, In x (insert_at t i e) -> x = e \/ In x t).
  { intros i x Hx. apply insert_at_in in Hx. destruct Hx as [<-|Hx]; auto. }
  assert (Hreplace : forall i s en x, (s <= en)%nat -> In x (sort_section (replace_at t i e) s en) -> x = e \/ In x t).
  { intros i s en x Hle Hx. apply sort_section_in in Hx; [|exact Hle]. apply replace_at_in in Hx. exact Hx. }
  destruct (dst_section t (e_dst e)) as [s en] eqn:Hsec.
  destruct (dst_section_spec t (e_dst e) s en Hs Htw Hsec) as (Hbnd & Hlo & Hmid & Hhi).
  destruct (Nat.leb_spec en s) as [Hle|Hgt].
  - (* new destination *)
    destruct (N.eqb_spec (e_source e) src_gossip) as [Sg|Sg].
    + destruct (prefix_section t pa pb) as [ps pe] eqn:Hps.
      destruct (Nat.ltb_spec (rp_limit rp * 2) (pe - ps)) as [Hfull|Hroom]; intros H; inversion H; subst; [split; assumption|].
      split; [apply Hpinv; apply Hinsert|].
      apply (Hnew _ ps pe); [apply Hinsert|apply insert_at_in; left; reflexivity|reflexivity|lia].
    + intros H; inversion H; subst. split; [apply Hpinv; apply Hinsert|]. apply Hsame; [apply Hinsert|left; exact Sg].
  - (* known destination *)
    set (sec := firstn (en - s) (skipn s t)) in *.
    destruct (N.eqb_spec (e_source e) src_gossip) as [Sg|Sg]; cbn [andb].
    + destruct (existsb (fun x => e_source x =? src_gossip) sec) eqn:Hex; cbn [negb andb].
      * (* the destination already has a gossip route: it already is a gossip destination of (pa, pb) *)
        assert (Hold : In (e_dst e) (gdsts t pa pb)).
        { destruct (existsb_gossip_in _ Hex) as (g & Hg & Gs). pose proof (Hmid g Hg) as Dg.
          assert (Hgt' : In g t) by (exact (in_skipn_sub g _ _ (in_firstn_sub g _ _ Hg))).
          apply in_gdsts. exists g. split; [exact Hgt'|]. split; [|exact Dg].
          destruct (Hp g Hgt') as (rg & Rg & Ag & Bg). rewrite Dg in Rg. cbn [e e_dst] in Rg. rewrite Hrp in Rg. inversion Rg; subst rg.
          unfold in_gp. rewrite Gs, Ag, Bg, Dg. cbn [e e_dst]. fold pa pb. rewrite !N.eqb_refl. reflexivity. }
        assert (Hno : e_source e <> src_gossip \/ In (e_dst e) (gdsts t pa pb)) by (right; exact Hold).
        match goal with |- context [match ?f with Some _ => _ | None => _ end] => destruct f as [i|] eqn:Hf end.
        -- intros H; inversion H; subst. split; [apply Hpinv; (intros z Hz; eapply Hreplace; [|exact Hz]; lia)|apply Hsame; [(intros z Hz; eapply Hreplace; [|exact Hz]; lia)|exact Hno]].
        -- match goal with |- context [if ?c then Ok (insert_at _ _ _, true) else _] => destruct c end.
           ++ intros H; inversion H; subst. split; [apply Hpinv; apply Hinsert|apply Hsame; [apply Hinsert|exact Hno]].
           ++ destruct (nth_error t (s + 2)) as [third|]; [|discriminate].
              destruct (std_cmp e third <? 0)%Z; intros H; inversion H; subst; [|split; assumption].
              split; [apply Hpinv; (intros z Hz; eapply Hreplace; [|exact Hz]; lia)|apply Hsame; [(intros z Hz; eapply Hreplace; [|exact Hz]; lia)|exact Hno]].
      * (* first gossip route of a known destination: admitted only below the limit *)
        destruct (prefix_section t pa pb) as [ps pe] eqn:Hps.
        destruct (Nat.ltb_spec (rp_limit rp * 2) (pe - ps)) as [Hfull|Hroom]; [intros H; inversion H; subst; split; assumption|].
        match goal with |- context [match ?f with Some _ => _ | None => _ end] => destruct f as [i|] eqn:Hf end.
        -- intros H; inversion H; subst. split; [apply Hpinv; (intros z Hz; eapply Hreplace; [|exact Hz]; lia)|].
           apply (Hnew _ ps pe); [(intros z Hz; eapply Hreplace; [|exact Hz]; lia)|apply sort_section_in; [lia|apply replace_at_in_new]|reflexivity|lia].
        -- match goal with |- context [if ?c then Ok (insert_at _ _ _, true) else _] => destruct c end.
           ++ intros H; inversion H; subst. split; [apply Hpinv; apply Hinsert|].
              apply (Hnew _ ps pe); [apply Hinsert|apply insert_at_in; left; reflexivity|reflexivity|lia].
           ++ destruct (nth_error t (s + 2)) as [third|]; [|discriminate].
              destruct (std_cmp e third <? 0)%Z; intros H; inversion H; subst; [|split; assumption].
              split; [apply Hpinv; (intros z Hz; eapply Hreplace; [|exact Hz]; lia)|].
              apply (Hnew _ ps pe); [(intros z Hz; eapply Hreplace; [|exact Hz]; lia)|apply sort_section_in; [lia|apply replace_at_in_new]|reflexivity|lia].
    + (* not a gossip route *)
      assert (Hno : e_source e <> src_gossip \/ In (e_dst e) (gdsts t pa pb)) by (left; exact Sg).
      match goal with |- context [match ?f with Some _ => _ | None => _ end] => destruct f as [i|] eqn:Hf end.
      * intros H; inversion H; subst. split; [apply Hpinv; (intros z Hz; eapply Hreplace; [|exact Hz]; lia)|apply Hsame; [(intros z Hz; eapply Hreplace; [|exact Hz]; lia)|exact Hno]].
      * match goal with |- context [if ?c then Ok (insert_at _ _ _, true) else _] => destruct c end.
        -- intros H; inversion H; subst. split; [apply Hpinv; apply Hinsert|apply Hsame; [apply Hinsert|exact Hno]].
        -- destruct (nth_error t (s + 2)) as [third|]; [|discriminate].
           destruct (std_cmp e third <? 0)%Z; intros H; inversion H; subst; [|split; assumption].
           split; [apply Hpinv; (intros z Hz; eapply Hreplace; [|exact Hz]; lia)|apply Hsame; [(intros z Hz; eapply Hreplace; [|exact Hz]; lia)|exact Hno]].
Qed.

(* ---------- every operation, every history ---------- *)
Definition pfull (cfg : list rprefix) (t : list entry) : Prop := tinv t /\ pinv cfg t /\ pbound cfg t.

Theorem tstep_pfull cfg self t o : cfg_ok cfg = true -> pfull cfg t -> op_ok o -> pfull cfg (tstep cfg self t o).
Proof.
  intros Hc (Ht & Hp & Hb) Ho. split; [apply tstep_inv; assumption|].
  destruct Ht as (Hs & Hw & _).
  destruct o as [now e|ip|router disc|now]; cbn [tstep].
  - destruct (add_route cfg now t e) as [[t' b]|c|] eqn:Ha; cbn; try (split; assumption).
    exact (add_route_prefix cfg now t e t' b Hc Hs Hw Hp Hb Ha).
  - split; [apply (pinv_sub cfg t)|apply (pbound_sub cfg t)]; try assumption; intros x Hx; apply filter_In in Hx; tauto.
  - split; [apply (pinv_sub cfg t)|apply (pbound_sub cfg t)]; try assumption; intros x Hx; apply filter_In in Hx; tauto.
  - split; [apply (pinv_sub cfg t)|apply (pbound_sub cfg t)]; try assumption; intros x Hx; eapply clean_sub; exact Hx.
Qed.

Theorem history_pfull cfg self : cfg_ok cfg = true -> forall ops t, pfull cfg t -> Forall op_ok ops ->
  pfull cfg (fold_left (tstep cfg self) ops t).
Proof.
  intros Hc. induction ops as [|o ops IH]; intros t Ht Ho; cbn [fold_left]; [exact Ht|].
  inversion Ho; subst. apply IH; [apply tstep_pfull; assumption|assumption].
Qed.

Lemma pfull_nil cfg : pfull cfg [].
Proof. split; [apply tinv_nil|]. split; intros e []. Qed.

(* ---------- from destinations to routes: at most three gossip routes per destination ---------- *)
Lemma cnt_mono_in (f g : entry -> bool) t : (forall x, In x t -> f x = true -> g x = true) -> (cnt f t <= cnt g t)%nat.
Proof.
  induction t as [|x t IH]; intros H; [apply le_n|]. rewrite !cnt_cons.
  assert (IH' : (cnt f t <= cnt g t)%nat) by (apply IH; intros y Hy; apply H; right; exact Hy).
  destruct (f x) eqn:E; [rewrite (H x (or_introl eq_refl) E); lia|destruct (g x); lia].
Qed.

Lemma in_gp_np pa pb x d : in_gp pa pb x = true -> e_dst x = d -> is_np d x = true.
Proof.
  unfold in_gp, is_np. intros H ->. apply andb_true_iff in H. destruct H as [H _]. apply andb_true_iff in H. destruct H as [Sg _].
  apply N.eqb_eq in Sg. rewrite N.eqb_refl, Sg. reflexivity.
Qed.

Lemma cnt_split_dst pa pb d ds t :
  (cnt (fun e => in_gp pa pb e && existsb (N.eqb (e_dst e)) (d :: ds)) t <=
   cnt (is_np d) t + cnt (fun e => in_gp pa pb e && existsb (N.eqb (e_dst e)) ds) t)%nat.
Proof.
  induction t as [|x t IH]; [cbn; lia|]. rewrite !cnt_cons. cbv beta. cbn [existsb] in *.
  destruct (in_gp pa pb x) eqn:G; cbn [andb]; [|destruct (is_np d x); lia].
  destruct (N.eqb_spec (e_dst x) d) as [E|E]; cbn [orb].
  - rewrite (in_gp_np pa pb x d G E). destruct (existsb _ ds); lia.
  - destruct (existsb _ ds); destruct (is_np d x); lia.
Qed.

Lemma cnt_by_dsts pa pb t : (forall d, (cnt (is_np d) t <= 3)%nat) -> forall ds,
  (cnt (fun e => in_gp pa pb e && existsb (N.eqb (e_dst e)) ds) t <= 3 * length ds)%nat.
Proof.
  intros Hb. induction ds as [|d ds IH].
  - rewrite cnt_zero; [cbn; lia|]. intros x _. cbn. apply andb_false_r.
  - pose proof (cnt_split_dst pa pb d ds t). specialize (Hb d). cbn [length]. lia.
Qed.

Lemma cnt_gp_le t pa pb : (forall d, (cnt (is_np d) t <= 3)%nat) ->
  (cnt (in_gp pa pb) t <= 3 * length (gdsts t pa pb))%nat.
Proof.
  intros Hb. eapply Nat.le_trans; [|apply (cnt_by_dsts pa pb t Hb (gdsts t pa pb))].
  apply cnt_mono_in. intros x Hx G. rewrite G. cbn [andb].
  apply existsb_exists. exists (e_dst x). split; [|apply N.eqb_refl].
  apply in_gdsts. exists x. auto.
Qed.

(* Gossip routes per routing prefix stay within 3*(2*limit+1): in every table reachable from the
   empty one by system-producible operations, for every gossip route e, the number of gossip
   routes that share e's routing prefix is at most 3*(2*L+1), L the configured limit that applies
   to e's destination (and, by coherence, to every destination of that routing prefix). *)
Theorem reachable_prefix_bound cfg self ops : cfg_ok cfg = true -> Forall op_ok ops ->
  let t := fold_left (tstep cfg self) ops [] in
  forall e, In e t -> e_source e = src_gossip ->
    (cnt (in_gp (e_paddr e) (e_pbits e)) t <= 3 * (2 * lim_of cfg (e_dst e) + 1))%nat.
Proof.
  intros Hc Ho t e He Hg.
  destruct (history_pfull cfg self Hc ops [] (pfull_nil cfg) Ho) as ((_ & _ & _ & Hb) & _ & Hpb).
  fold t in Hb, Hpb. specialize (Hpb e He Hg).
  pose proof (cnt_gp_le t (e_paddr e) (e_pbits e) (fun d => proj1 (Hb d))). lia.
Qed.

(* non-vacuity / regression: the history that broke the bound before fix D21 (five direct peers in
   one routing prefix with limit 1, two gossip routes to each) now keeps it, and the function as it
   stood violates it *)
Definition d21_cfg : list rprefix := [mkRp 0 0 16 0%Z 1].
Definition d21_g (dst r1 delay : N) : entry :=
  mkEntry dst 0 0 7 [mkHop 1 delay 3 0; mkHop r1 5 4 5; mkHop dst 5 0 6] false src_gossip 5000000%Z 0 0.
Definition d21_ops : list top :=
  flat_map (fun d => [TAdd 1000 (ex_p d)]) [100;101;102;103;104] ++
  flat_map (fun d => [TAdd 1000 (d21_g d 11 9); TAdd 1000 (d21_g d 12 8)]) [100;101;102;103;104].
Definition tstep_pinned (cfg : list rprefix) (self : N) (t : list entry) (o : top) : list entry :=
  match o with
  | TAdd now e => match add_route_pinned cfg now t e with Ok (t', _) => t' | _ => t end
  | _ => tstep cfg self t o
  end.

Definition d21_ops2 : list top :=
  [TAdd 1000 (ex_p 100); TAdd 1000 (d21_g 100 11 9); TAdd 1000 (d21_g 100 12 8); TAdd 1000 (d21_g 101 12 8)].
Example d21_fixed : cfg_ok d21_cfg = true /\ Forall op_ok d21_ops /\
  cnt (in_gp 0 16) (fold_left (tstep d21_cfg 1) d21_ops []) = 0%nat /\
  cnt (in_gp 0 16) (fold_left (tstep d21_cfg 1) d21_ops2 []) = 2%nat.
Proof.
  split; [reflexivity|]. split; [|vm_compute; split; reflexivity].
  repeat constructor; cbn; try lia; try discriminate; intros H; try discriminate; try (exfalso; apply H; reflexivity).
Qed.

Theorem prefix_bound_pinned_refuted : exists cfg ops, cfg_ok cfg = true /\ Forall op_ok ops /\
  exists e, In e (fold_left (tstep_pinned cfg 1) ops []) /\ e_source e = src_gossip /\
    (3 * (2 * lim_of cfg (e_dst e) + 1) < cnt (in_gp (e_paddr e) (e_pbits e)) (fold_left (tstep_pinned cfg 1) ops []))%nat.
Proof.
  exists d21_cfg, d21_ops. split; [reflexivity|]. split.
  - repeat constructor; cbn; try lia; try discriminate; intros H; try discriminate; try (exfalso; apply H; reflexivity).
  - exists (nth 1 (fold_left (tstep_pinned d21_cfg 1) d21_ops []) (ex_p 0)). vm_compute. repeat split; auto. 
Qed.
