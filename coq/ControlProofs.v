(* ControlProofs.v — lemmas about Control.v (C07, C08). *)
From Verif Require Import Prelude SwitchLabel Table TableProofs Control.

Lemma gate_project self c p : project (fst (gate self c p)) = project c.
Proof.
  unfold gate. destruct (mem (p_src p) (c_known c)).
  - destruct (negb (p_auth p)); [reflexivity|].
    destruct (p_time p =? _)%Z; [reflexivity|]. destruct (p_time p <? _)%Z; reflexivity.
  - destruct (p_hdr_ok p && negb (p_enc p)); [|reflexivity].
    destruct (negb (p_auth p)); [reflexivity|]. cbn [upd c_latest c_known c_keys c_mtu c_routes c_info c_offline c_conn c_fresh c_errseen].
    destruct (p_time p =? _)%Z; [reflexivity|]. destruct (p_time p <? _)%Z; reflexivity.
Qed.

(* a ping that does not verify under the key bound to its source changes nothing projected *)
Theorem unauth_no_effect self c p : p_auth p = false -> project (handle_ping self c p) = project c.
Proof.
  intros Ha. unfold handle_ping. pose proof (gate_project self c p) as Hg.
  destruct (gate self c p) as [c1 ok] eqn:Eg. cbn [fst] in Hg.
  assert (ok = false).
  { unfold gate in Eg. rewrite Ha in Eg. cbn [negb] in Eg.
    destruct (mem (p_src p) (c_known c)); [inversion Eg; reflexivity|].
    destruct (p_hdr_ok p && negb (p_enc p)); inversion Eg; reflexivity. }
  subst ok. exact Hg.
Qed.

(* first contact: if the key in the header does not hash to the source address, nothing changes *)
Theorem bad_header_no_effect self c p :
  mem (p_src p) (c_known c) = false -> p_hdr_ok p = false -> handle_ping self c p = c.
Proof. intros Hk Hh. unfold handle_ping, gate. rewrite Hk, Hh. reflexivity. Qed.

(* a replayed ping (not newer than the newest accepted one from that source) changes nothing
   projected — except that an exact duplicate of the newest HOP ping is handed to its handler *)
Theorem replay_no_effect self c p last :
  mem (p_src p) (c_known c) = true -> aget (latest_key p) (c_latest c) = Some last ->
  (p_time p <= last)%Z -> (p_hop p = false \/ p_time p <> last) ->
  project (handle_ping self c p) = project c.
Proof.
  intros Hk Hl Hle Hd. unfold handle_ping, gate. rewrite Hk, Hl.
  destruct (negb (p_auth p)); [reflexivity|].
  destruct (Z.eqb_spec (p_time p) last) as [He|Hne].
  - destruct Hd as [Hh|Hc]; [rewrite Hh; reflexivity|contradiction].
  - replace (p_time p <? last)%Z with true by (symmetry; apply Z.ltb_lt; lia). reflexivity.
Qed.

(* a disconnect from X removes exactly the routes with X as destination, next hop or on the path *)
Theorem disconnect_scope self c p e :
  p_kind p = k_disconnect ->
  In e (c_routes (effect self c p)) <->
  In e (c_routes c) /\ e_dst e <> p_src p /\ e_nexthop e <> p_src p /\ ~ In (p_src p) (map h_router (e_path e)).
Proof.
  intros Hk. unfold effect. rewrite Hk. cbn [k_disconnect k_hello k_error N.eqb Pos.eqb].
  cbn [upd c_routes]. apply remove_disconnected_all_spec.
Qed.

(* a hello from X re-keys only the session with X, and touches no route, info, offline flag or
   connection state *)
Theorem hello_scope self c p y :
  p_kind p = k_hello -> y <> p_src p ->
  aget y (c_keys (effect self c p)) = aget y (c_keys c) /\
  c_routes (effect self c p) = c_routes c /\ c_info (effect self c p) = c_info c /\
  c_offline (effect self c p) = c_offline c /\ c_conn (effect self c p) = c_conn c.
Proof.
  intros Hk Hy. unfold effect. rewrite Hk. cbn [k_hello N.eqb].
  destruct (p_follow p); [repeat split|].
  destruct (mem (p_src p) (c_pending c) && (self <? p_src p)); [repeat split|].
  cbn [set_pending upd c_keys c_routes c_info c_offline c_conn]. repeat split.
  clear Hk. induction (c_keys c) as [|[k v] t IH]; cbn [aset aget].
  - destruct (N.eqb_spec y (p_src p)); [contradiction|reflexivity].
  - destruct (N.eqb_spec (p_src p) k) as [<-|Hne]; cbn [aget].
    + destruct (N.eqb_spec y (p_src p)); [contradiction|reflexivity].
    + destruct (y =? k); [reflexivity|exact IH].
Qed.

(* ---------- announcements ---------- *)
Lemma parse_chain_hops self ch : forall layer hops,
  parse_chain self ch layer = PHops hops ->
  hops = map (fun r => mkHop (r_signer r) (r_delay r) (r_fl r) (r_rl r)) ch /\
  Forall (fun r => r_sig_ok r = true /\ (r_known r = true \/ r_id_ok r = true) /\ r_signer r <> self) ch.
Proof.
  induction ch as [|r t IH]; intros layer hops H; cbn [parse_chain] in H.
  - inversion H. split; [reflexivity|constructor].
  - destruct (Nat.leb 100 layer); [discriminate|].
    destruct (N.eqb_spec (r_signer r) self) as [|Hns]; [discriminate|].
    destruct (r_known r || r_id_ok r) eqn:Hk; cbn [negb] in H; [|discriminate].
    destruct (r_sig_ok r) eqn:Hs; cbn [negb] in H; [|discriminate].
    destruct (parse_chain self t (S layer)) as [hs| |] eqn:Hp; try discriminate.
    destruct (IH _ _ Hp) as [Hhs Hall]. subst hs.
    assert (Hh : hops = mkHop (r_signer r) (r_delay r) (r_fl r) (r_rl r) :: map (fun r => mkHop (r_signer r) (r_delay r) (r_fl r) (r_rl r)) t) by congruence.
    split; [exact Hh|].
    constructor; [|exact Hall]. split; [exact Hs|]. split; [apply orb_true_iff in Hk; exact Hk|exact Hns].
Qed.

(* an accepted announcement: every hop record verifies under the key bound to its signer over
   the record as attached with this announcement's context, its signer is known or
   self-certifying, and the delivering peer is the outermost signer (the origin if there is
   no record) *)
Theorem records_genuine cfg self lite stub now t links recv a r :
  handle_announce cfg self lite stub now t links recv a = Some r ->
  Forall (fun x => r_sig_ok x = true /\ (r_known x = true \/ r_id_ok x = true) /\ r_signer x <> self) (a_chain a) /\
  (match a_chain a with [] => a_origin a | x :: _ => r_signer x end) = fst (fst (fst recv)).
Proof.
  unfold handle_announce. destruct recv as [[[peer label] latency] rl]. cbn [fst].
  destruct (parse_chain self (a_chain a) 1) as [hops| |] eqn:Hp; try discriminate.
  destruct (parse_chain_hops _ _ _ _ Hp) as [Hh Hall]. intros H. split; [exact Hall|].
  destruct (a_chain a) as [|x ch]; cbn [map] in Hh; subst hops.
  - destruct (N.eqb_spec (a_origin a) peer); cbn [negb] in H; [assumption|discriminate].
  - cbn [h_router] in H. destruct (N.eqb_spec (r_signer x) peer); cbn [negb] in H; [assumption|discriminate].
Qed.

(* any record that does not verify (mutated, spliced from another announcement, re-attributed,
   re-ordered: its signature no longer covers what is attached), an unknown signer with an
   identity that is not self-certifying, or a delivering peer that is not the outermost signer:
   rejected — table, stored info and forwarding untouched (None) *)
Theorem forgery_rejected cfg self lite stub now t links recv a :
  (exists x, In x (a_chain a) /\ (r_sig_ok x = false \/ (r_known x = false /\ r_id_ok x = false))) \/
  (match a_chain a with [] => a_origin a | x :: _ => r_signer x end) <> fst (fst (fst recv)) ->
  handle_announce cfg self lite stub now t links recv a = None.
Proof.
  intros H. destruct (handle_announce cfg self lite stub now t links recv a) as [r|] eqn:Hh; [|reflexivity].
  exfalso. destruct (records_genuine _ _ _ _ _ _ _ _ _ _ Hh) as [Hall Hpeer].
  destruct H as [(x & Hin & Hbad)|Hne]; [|contradiction].
  rewrite Forall_forall in Hall. destruct (Hall x Hin) as (Hs & Hk & _).
  destruct Hbad as [Hb|[Hb1 Hb2]]; [congruence|]. destruct Hk; congruence.
Qed.

(* the learned route lists exactly the signers of the attached records, in order, with the delay
   and labels each of them signed, between this router and the origin; its next hop is the
   delivering peer *)
Theorem accepted_route_shape cfg self lite stub now t links recv a t' fw :
  handle_announce cfg self lite stub now t links recv a = Some (t', true, fw) ->
  exists e, In e t' /\ e_dst e = a_origin a /\ e_nexthop e = fst (fst (fst recv)) /\
    e_path e = mkHop self (snd (fst recv)) (snd (fst (fst recv))) 0 ::
               map (fun r => mkHop (r_signer r) (r_delay r) (r_fl r) (r_rl r)) (a_chain a) ++
               [mkHop (a_origin a) 0 0 (a_retlabel a)].
Proof.
  unfold handle_announce. destruct recv as [[[peer label] latency] rl]. cbn [fst snd].
  destruct (parse_chain self (a_chain a) 1) as [hops| |] eqn:Hp; try discriminate.
  destruct (parse_chain_hops _ _ _ _ Hp) as [Hh _].
  destruct (match hops with [] => negb (a_origin a =? peer) | h :: _ => negb (h_router h =? peer) end); [discriminate|].
  match goal with |- context [add_route cfg now t ?E] => set (e0 := E) end.
  destruct (add_route cfg now t e0) as [[t1 added]|c|] eqn:Ha.
  2:{ destruct stub; intros H; inversion H. }
  2:{ intros H; inversion H. }
  destruct added.
  2:{ intros H; inversion H. }
  intros H. assert (t1 = t') by (destruct stub; inversion H; reflexivity). subst t1.
  destruct (add_route_added _ _ _ _ _ Ha) as (e & Hin & Hd & Hn & Hpth & _).
  exists e. split; [exact Hin|]. unfold e0 in *. cbn [e_dst e_nexthop e_path] in *. rewrite Hh in Hpth.
  split; [exact Hd|]. split; [exact Hn|exact Hpth].
Qed.

(* forwarding never goes to the origin, back to the delivering peer, or to a router in the hop list *)
Theorem forward_targets cfg self lite stub now t links recv a t' added fw x :
  handle_announce cfg self lite stub now t links recv a = Some (t', added, fw) -> In x fw ->
  x <> a_origin a /\ x <> fst (fst (fst recv)) /\ ~ In x (map r_signer (a_chain a)) /\
  exists l, In l links /\ fst (fst (fst l)) = x.
Proof.
  unfold handle_announce. destruct recv as [[[peer label] latency] rl]. cbn [fst snd].
  destruct (parse_chain self (a_chain a) 1) as [hops| |] eqn:Hp; try discriminate.
  destruct (parse_chain_hops _ _ _ _ Hp) as [Hh _].
  destruct (match hops with [] => negb (a_origin a =? peer) | h :: _ => negb (h_router h =? peer) end); [discriminate|].
  assert (Hgen : forall fw0, fw0 = map (fun l : lnk => fst (fst (fst l)))
      (filter (fun l : lnk => let '(lp, _, _, llite) := l in
         negb (llite && negb lite) && negb (lp =? a_origin a) && negb (lp =? peer) && negb (existsb (fun h => h_router h =? lp) hops))
         (if a_dst_all a then links else [])) -> In x fw0 ->
      x <> a_origin a /\ x <> peer /\ ~ In x (map r_signer (a_chain a)) /\ exists l, In l links /\ fst (fst (fst l)) = x).
  { intros fw0 -> Hin. apply in_map_iff in Hin as (l & Hl & Hf). apply filter_In in Hf as [Hin Hc].
    destruct l as [[[lp ll] lt] llite]. cbn [fst] in Hl. subst lp.
    apply andb_true_iff in Hc as [Hc H4]. apply andb_true_iff in Hc as [Hc H3]. apply andb_true_iff in Hc as [_ H2].
    apply negb_true_iff, N.eqb_neq in H2, H3. apply negb_true_iff in H4.
    split; [exact H2|]. split; [exact H3|]. split.
    - intros Hi. apply in_map_iff in Hi as (r & Hr & Hir). subst hops.
      assert (Ht : existsb (fun h => h_router h =? x) (map (fun r => mkHop (r_signer r) (r_delay r) (r_fl r) (r_rl r)) (a_chain a)) = true).
      { apply existsb_exists. exists (mkHop (r_signer r) (r_delay r) (r_fl r) (r_rl r)). split.
        - apply in_map_iff. exists r. split; [reflexivity|exact Hir].
        - cbn [h_router]. rewrite Hr. apply N.eqb_refl. }
      congruence.
    - exists (x, ll, lt, llite). split; [|reflexivity]. destruct (a_dst_all a); [exact Hin|destruct Hin]. }
  match goal with |- context [add_route cfg now t ?E] => destruct (add_route cfg now t E) as [[t1 ad]|c|] end.
  - destruct ad.
    + destruct stub; intros H Hin; inversion H; subst; [destruct Hin|]. eapply Hgen; [reflexivity|exact Hin].
    + intros H Hin. inversion H; subst. destruct Hin.
  - destruct stub; intros H Hin; inversion H; subst; [destruct Hin|]. eapply Hgen; [reflexivity|exact Hin].
  - intros H; inversion H.
Qed.

(* an announcement whose body, origin signature or header was modified (it does not verify under
   the key bound to the origin), or that is older than the newest accepted from that origin,
   never reaches the handler *)
Theorem tampered_announce_rejected cfg self lite stub now c links recv p a :
  p_auth p = false -> announce_ping cfg self lite stub now c links recv p a = None.
Proof.
  intros Ha. unfold announce_ping, gate. rewrite Ha. cbn [negb].
  destruct (mem (p_src p) (c_known c)); [reflexivity|].
  destruct (p_hdr_ok p && negb (p_enc p)); reflexivity.
Qed.

Theorem old_announce_rejected cfg self lite stub now c links recv p a last :
  mem (p_src p) (c_known c) = true -> aget (latest_key p) (c_latest c) = Some last -> (p_time p < last)%Z ->
  announce_ping cfg self lite stub now c links recv p a = None.
Proof.
  intros Hk Hl Hlt. unfold announce_ping, gate. rewrite Hk, Hl.
  destruct (negb (p_auth p)); [reflexivity|].
  destruct (Z.eqb_spec (p_time p) last) as [He|Hne]; [lia|].
  replace (p_time p <? last)%Z with true by (symmetry; apply Z.ltb_lt; lia). reflexivity.
Qed.

(* what passes the gate is handled on the unchanged routes: the handler theorems apply *)
Theorem announce_ping_handled cfg self lite stub now c links recv p a r :
  announce_ping cfg self lite stub now c links recv p a = Some r ->
  p_auth p = true /\ handle_announce cfg self lite stub now (c_routes c) links recv a = Some r.
Proof.
  unfold announce_ping. pose proof (gate_project self c p) as Hg.
  destruct (gate self c p) as [c1 ok] eqn:Eg. cbn [fst] in Hg. intros H.
  destruct ok; [|discriminate].
  assert (Hr : c_routes c1 = c_routes c) by (unfold project in Hg; congruence).
  rewrite Hr in H. split; [|exact H].
  destruct (p_auth p) eqn:Ha; [reflexivity|]. exfalso.
  unfold gate in Eg. rewrite Ha in Eg. cbn [negb] in Eg.
  destruct (mem (p_src p) (c_known c)); [inversion Eg|].
  destruct (p_hdr_ok p && negb (p_enc p)); inversion Eg.
Qed.

(* converse of forward_targets: an added announcement addressed to all routers is forwarded by a
   non-stub router to EVERY link that is not excluded (lite peers unless this router is lite
   itself, the origin, the delivering peer, hop-list members) *)
Theorem forward_targets_complete cfg self lite now t links recv a t' fw lp ll lt llite :
  handle_announce cfg self lite false now t links recv a = Some (t', true, fw) ->
  a_dst_all a = true -> In (lp, ll, lt, llite) links ->
  (llite = true -> lite = true) -> lp <> a_origin a -> lp <> fst (fst (fst recv)) -> ~ In lp (map r_signer (a_chain a)) ->
  In lp fw.
Proof.
  unfold handle_announce. destruct recv as [[[peer label] latency] rl]. cbn [fst snd].
  destruct (parse_chain self (a_chain a) 1) as [hops| |] eqn:Hp; try discriminate.
  destruct (parse_chain_hops _ _ _ _ Hp) as [Hh _].
  destruct (match hops with [] => negb (a_origin a =? peer) | h :: _ => negb (h_router h =? peer) end); [discriminate|].
  intros H Hall Hin Hlite Ho Hpeer Hch.
  match type of H with context [add_route cfg now t ?E] => destruct (add_route cfg now t E) as [[t1 ad]|c|] end; try discriminate.
  destruct ad; [|discriminate]. inversion H; subst t' fw. rewrite Hall.
  apply in_map_iff. exists (lp, ll, lt, llite). split; [reflexivity|]. apply filter_In. split; [exact Hin|].
  apply andb_true_iff. split; [apply andb_true_iff; split; [apply andb_true_iff; split|]|].
  - destruct llite; [rewrite (Hlite eq_refl)|]; reflexivity.
  - apply negb_true_iff, N.eqb_neq. exact Ho.
  - apply negb_true_iff, N.eqb_neq. exact Hpeer.
  - apply negb_true_iff. destruct (existsb (fun h => h_router h =? lp) hops) eqn:He; [|reflexivity].
    exfalso. apply existsb_exists in He. destruct He as (h & Hhin & Heq). apply N.eqb_eq in Heq.
    apply Hch. rewrite Hh in Hhin. apply in_map_iff in Hhin. destruct Hhin as (r & <- & Hr). cbn [h_router] in Heq.
    apply in_map_iff. exists r. split; [exact Heq|exact Hr].
Qed.
