(* ForwardProofs.v — theorems about Forward.v (C10). *)
From Verif Require Import Prelude Gen SwitchLabel Table Control Forward.

(* ---------- one forwarding step ---------- *)
Lemma reduce_ttl_spec t : reduce_ttl t <> 0 -> reduce_ttl t + 1 = t.
Proof. unfold reduce_ttl. destruct (N.ltb_spec 1 t) as [Hl|Hl]; intros Hz; [lia|contradiction]. Qed.

Lemma forward_to_link_send f flag p q f' :
  forward_to_link f flag p = OSend q f' ->
  q = p /\ ff_ttl f' + 1 = ff_ttl f /\ 1 <= ff_ttl f' /\
  ff_flow f' = N.lor (ff_flow f) flag /\ ff_ty f' = ff_ty f /\ ff_src f' = ff_src f /\ ff_dst f' = ff_dst f /\
  ff_sb f' = ff_sb f /\ ff_rest f' = ff_rest f.
Proof.
  unfold forward_to_link. destruct (N.eqb_spec (reduce_ttl (ff_ttl f)) 0) as [|Hnz]; [discriminate|].
  intros H. inversion H; subst. cbn. pose proof (reduce_ttl_spec _ Hnz). repeat split; try reflexivity; lia.
Qed.

Lemma route_frame_send nd f recv flag q f' :
  route_frame nd f recv flag = OSend q f' ->
  ff_ttl f' + 1 = ff_ttl f /\ 1 <= ff_ttl f' /\
  ff_flow f' = N.lor (ff_flow f) flag /\ ff_ty f' = ff_ty f /\ ff_src f' = ff_src f /\ ff_dst f' = ff_dst f /\
  ff_sb f' = ff_sb f /\ ff_rest f' = ff_rest f.
Proof.
  unfold route_frame. destruct (negb (routable (ff_dst f))); [discriminate|].
  destruct (lookup_nearest_route (n_table nd) (ff_dst f)) as [[e m]|]; [|discriminate].
  destruct (match recv with Some r => e_nexthop e =? lnk_peer r | None => false end); [discriminate|].
  destruct (link_by_peer nd (e_nexthop e)) as [l|]; [|discriminate].
  intros H. apply forward_to_link_send in H. tauto.
Qed.

Lemma router_handle_send nd f recv flag q f' :
  router_handle nd f recv flag = OSend q f' ->
  ff_ttl f' + 1 = ff_ttl f /\ 1 <= ff_ttl f' /\
  ff_flow f' = N.lor (ff_flow f) flag /\ ff_ty f' = ff_ty f /\ ff_src f' = ff_src f /\ ff_dst f' = ff_dst f /\
  ff_sb f' = ff_sb f /\ ff_rest f' = ff_rest f.
Proof.
  unfold router_handle. destruct (ff_dst f =? n_self nd); [discriminate|].
  destruct (is_hop_ping (ff_ty f)); [discriminate|]. apply route_frame_send.
Qed.

(* Every forwarding step: the TTL strictly decreases and stays at least one; the message type,
   source, destination and every byte outside TTL, flow flags and switch block are unchanged;
   flow flags only gain the receive link's flag; a frame without a switch block keeps none, a
   switch block keeps its length. *)
Theorem forward_step nd f recv flag q f' :
  switch_handle nd f recv flag = OSend q f' ->
  ff_ttl f' + 1 = ff_ttl f /\ 1 <= ff_ttl f' /\
  ff_flow f' = N.lor (ff_flow f) flag /\ ff_ty f' = ff_ty f /\ ff_src f' = ff_src f /\ ff_dst f' = ff_dst f /\
  ff_rest f' = ff_rest f /\
  (ff_sb f = [] -> ff_sb f' = []).
Proof.
  unfold switch_handle. destruct (ff_src f =? n_self nd); [discriminate|].
  destruct (ff_sb f) as [|b sb] eqn:Hsb.
  - intros H. apply router_handle_send in H. rewrite Hsb in H.
    destruct H as (A & B & C & D & E & F & G & I). repeat split; auto.
  - destruct recv as [r|]; [|discriminate].
    destruct (rotate (b :: sb) [] (lnk_label r)) as [[[next sb'] ex]| |]; try discriminate.
    destruct (next =? 0).
    + intros H. apply router_handle_send in H. cbn in H.
      destruct H as (A & B & C & D & E & F & G & I). repeat split; auto. discriminate.
    + destruct (link_by_label nd next) as [l|]; [|discriminate].
      intros H. apply forward_to_link_send in H. cbn in H.
      destruct H as (_ & A & B & C & D & E & F & G & I). repeat split; auto. discriminate.
Qed.

(* what is handed to the handlers is the frame that arrived, except possibly a rotated switch block *)
Theorem handle_step nd f recv flag f' :
  switch_handle nd f recv flag = OHandle f' ->
  ff_ttl f' = ff_ttl f /\ ff_flow f' = ff_flow f /\ ff_ty f' = ff_ty f /\ ff_src f' = ff_src f /\ ff_dst f' = ff_dst f /\
  ff_rest f' = ff_rest f /\ (ff_sb f = [] -> f' = f) /\
  (ff_dst f = n_self nd \/ is_hop_ping (ff_ty f) = true).
Proof.
  assert (Hr : forall g g', router_handle nd g recv flag = OHandle g' -> g' = g /\ (ff_dst g = n_self nd \/ is_hop_ping (ff_ty g) = true)).
  { intros g g'. unfold router_handle. destruct (N.eqb_spec (ff_dst g) (n_self nd)) as [Ed|Ed].
    - intros H; inversion H; subst; split; [reflexivity|left; exact Ed].
    - destruct (is_hop_ping (ff_ty g)) eqn:Hh; [intros H; inversion H; subst; split; [reflexivity|right; reflexivity]|].
      unfold route_frame. destruct (negb (routable (ff_dst g))); [discriminate|].
      destruct (lookup_nearest_route _ _) as [[e m]|]; [|discriminate].
      destruct (match recv with Some r => _ | None => false end); [discriminate|].
      destruct (link_by_peer nd (e_nexthop e)); [|discriminate].
      unfold forward_to_link. destruct (_ =? 0); discriminate. }
  unfold switch_handle. destruct (ff_src f =? n_self nd); [discriminate|].
  destruct (ff_sb f) as [|b sb] eqn:Hsb.
  - intros H. apply Hr in H. destruct H as [-> Hd]. repeat split; auto.
  - destruct recv as [r|]; [|discriminate].
    destruct (rotate (b :: sb) [] (lnk_label r)) as [[[next sb'] ex]| |]; try discriminate.
    destruct (next =? 0).
    + intros H. apply Hr in H. destruct H as [-> Hd]. cbn in *. repeat split; auto. discriminate.
    + destruct (link_by_label nd next); [|discriminate]. unfold forward_to_link. destruct (_ =? 0); discriminate.
Qed.

(* ---------- the forwarding bound, for every network ---------- *)
Section Net.
  Variable net : N -> node.
  Variable rlink : N -> N -> option lnk.
  Variable flag : N -> N -> N.

  (* Whatever the routing tables, link maps and switch blocks: a frame that arrives with TTL t
     crosses at most t - 1 further links. *)
  Theorem crossings_bounded : forall fuel at_ from f,
    (crossings net rlink flag fuel at_ from f <= N.to_nat (ff_ttl f) - 1)%nat.
  Proof.
    induction fuel as [|k IH]; intros at_ from f; cbn [crossings]; [lia|].
    unfold arrive. destruct (switch_handle (net at_) f (rlink at_ from) (flag at_ from)) as [| |p f'|] eqn:Hs; try lia.
    apply forward_step in Hs. destruct Hs as (Ht & H1 & _).
    specialize (IH p at_ f'). lia.
  Qed.

  (* A frame a router originates with TTL t crosses at most t - 1 links (31 for the default 32). *)
  Theorem crossings_from_origin_bounded : forall fuel a f,
    (crossings_from_origin net rlink flag fuel a f <= N.to_nat (ff_ttl f) - 1)%nat.
  Proof.
    intros fuel a f. unfold crossings_from_origin, originate.
    destruct (route_frame (net a) f None 0) as [| |p f'|] eqn:Hs; try lia.
    apply route_frame_send in Hs. destruct Hs as (Ht & H1 & _).
    pose proof (crossings_bounded fuel p a f'). lia.
  Qed.

  (* a frame with TTL 0 or 1 is never put on a link *)
  Theorem ttl_exhausted_not_forwarded : forall at_ from f,
    ff_ttl f <= 1 -> forall p f', arrive net rlink flag at_ from f <> OSend p f'.
  Proof.
    intros at_ from f Ht p f' H. apply forward_step in H. lia.
  Qed.

  (* content preservation along the whole journey *)
  Theorem deliver_preserves : forall fuel at_ from f b f',
    deliver net rlink flag fuel at_ from f = Some (b, f') ->
    ff_ty f' = ff_ty f /\ ff_src f' = ff_src f /\ ff_dst f' = ff_dst f /\ ff_rest f' = ff_rest f /\
    (ff_sb f = [] -> ff_sb f' = []) /\
    (ff_dst f = n_self (net b) \/ is_hop_ping (ff_ty f) = true).
  Proof.
    induction fuel as [|k IH]; intros at_ from f b f'; cbn [deliver]; [discriminate|].
    unfold arrive. destruct (switch_handle (net at_) f (rlink at_ from) (flag at_ from)) as [|g|p g|] eqn:Hs; try discriminate.
    - intros H. inversion H; subst. apply handle_step in Hs.
      destruct Hs as (_ & _ & Hty & Hsrc & Hdst & Hrest & Hsb & Hd). repeat split; auto.
      intros E. rewrite (Hsb E). exact E.
    - intros H. apply IH in H. apply forward_step in Hs.
      destruct Hs as (_ & _ & _ & Hty & Hsrc & Hdst & Hrest & Hsb).
      destruct H as (Hty' & Hsrc' & Hdst' & Hrest' & Hsb' & Hd).
      split; [congruence|]. split; [congruence|]. split; [congruence|]. split; [congruence|].
      split; [intros E; auto|]. rewrite <- Hdst, <- Hty. exact Hd.
  Qed.

  (* ---------- delivery in a converged mesh ---------- *)
  (* [rank] measures the remaining distance to the destination b: every router other than b
     looks up a next hop of smaller rank to which it has a link, the link objects agree with the
     peers, and router addresses are distinct. *)
  Variable rank : N -> nat.
  Variable b : N.
  Variable dom : N -> Prop.                  (* the routers of the mesh *)
  Hypothesis self_id : forall r, n_self (net r) = r.
  Hypothesis rlink_peer : forall r p l, rlink r p = Some l -> lnk_peer l = p.
  Hypothesis b_routable : routable b = true.
  Hypothesis progress : forall r, dom r -> r <> b ->
    exists e m l, lookup_nearest_route (n_table (net r)) b = Some (e, m) /\
                  link_by_peer (net r) (e_nexthop e) = Some l /\ lnk_peer l = e_nexthop e /\
                  dom (e_nexthop e) /\ (rank (e_nexthop e) < rank r)%nat.

  Lemma deliver_progress : forall k at_ from f,
    dom at_ -> (rank at_ <= k)%nat -> ff_dst f = b -> ff_sb f = [] -> is_hop_ping (ff_ty f) = false ->
    (forall r, (rank r <= rank at_)%nat -> r <> ff_src f) ->
    (rank at_ < rank from)%nat -> (N.of_nat (rank at_) < ff_ttl f) ->
    exists f', deliver net rlink flag (S k) at_ from f = Some (b, f').
  Proof.
    induction k as [k IH] using lt_wf_ind. intros at_ from f Hdom Hk Hd Hsb Hh Hsrc Hfrom Httl.
    cbn [deliver]. unfold arrive, switch_handle. rewrite self_id.
    destruct (N.eqb_spec (ff_src f) at_) as [E|_]; [exfalso; apply (Hsrc at_); [lia|auto]|].
    rewrite Hsb. unfold router_handle. rewrite self_id, Hd.
    destruct (N.eqb_spec b at_) as [E|Hne].
    - subst at_. eexists. reflexivity.
    - rewrite <- Hd, Hh. unfold route_frame. rewrite Hd, b_routable. cbn [negb].
      destruct (progress at_ Hdom (fun E => Hne (eq_sym E))) as (e & m & l & Hl & Hlk & Hlp & Hdn & Hr).
      rewrite Hl.
      assert (Hloop : (match rlink at_ from with Some r => e_nexthop e =? lnk_peer r | None => false end) = false).
      { destruct (rlink at_ from) as [r|] eqn:Er; [|reflexivity].
        apply rlink_peer in Er. rewrite Er. apply N.eqb_neq. intros E. rewrite E in Hr. lia. }
      rewrite Hloop, Hlk. unfold forward_to_link.
      assert (Ht : reduce_ttl (ff_ttl f) = ff_ttl f - 1) by (unfold reduce_ttl; destruct (N.ltb_spec 1 (ff_ttl f)); lia).
      rewrite Ht. destruct (N.eqb_spec (ff_ttl f - 1) 0) as [E|_]; [lia|].
      rewrite Hlp. destruct k as [|k']; [lia|].
      apply (IH k'); cbn; try assumption; try lia.
      intros r Hr'. apply Hsrc. lia.
  Qed.

  (* In a converged mesh a frame router a originates for b with enough TTL is handed to b's
     handlers (and, [deliver] being a function, to nobody else's), with its content preserved. *)
  Theorem converged_delivery : forall a f,
    dom a -> a <> b -> ff_src f = a -> ff_dst f = b -> ff_sb f = [] -> is_hop_ping (ff_ty f) = false ->
    (forall r, (rank r < rank a)%nat -> r <> a) ->
    N.of_nat (rank a) < ff_ttl f ->
    exists f', deliver_from_origin net rlink flag (S (rank a)) a f = Some (b, f') /\
               ff_ty f' = ff_ty f /\ ff_src f' = ff_src f /\ ff_dst f' = ff_dst f /\ ff_rest f' = ff_rest f /\ ff_sb f' = [].
  Proof.
    intros a f Hdoma Hab Hsrc Hd Hsb Hh Hdist Httl.
    unfold deliver_from_origin, originate, route_frame. rewrite Hd, b_routable. cbn [negb].
    destruct (progress a Hdoma Hab) as (e & m & l & Hl & Hlk & Hlp & Hdn & Hr).
    rewrite Hl, Hlk. unfold forward_to_link.
    assert (Ht : reduce_ttl (ff_ttl f) = ff_ttl f - 1) by (unfold reduce_ttl; destruct (N.ltb_spec 1 (ff_ttl f)); lia).
    rewrite Ht. destruct (N.eqb_spec (ff_ttl f - 1) 0) as [E|_]; [lia|].
    rewrite Hlp.
    set (g := mkFF (ff_ttl f - 1) (N.lor (ff_flow f) 0) (ff_ty f) (ff_src f) (ff_dst f) (ff_sb f) (ff_rest f)).
    destruct (deliver_progress (rank a) (e_nexthop e) a g) as [f' Hf']; subst g; cbn; try assumption; try lia.
    { intros r Hr'. rewrite Hsrc. apply Hdist. lia. }
    exists f'. split; [exact Hf'|].
    apply deliver_preserves in Hf'. cbn in Hf'. destruct Hf' as (H1 & H2 & H3 & H4 & H5 & _).
    repeat split; auto; congruence.
  Qed.
End Net.
