(* PoolInv.v — the buffer-ownership invariant of the frame pool holds after every sequence of
   operations (C17): no two live frames share a pooled buffer, no live frame's buffer is in a
   pool, every pooled buffer is all-zero, every pooled frame struct is clean.
   [ex] exempts one frame id whose buffer field is momentarily stale (inside an operation). *)
From Verif Require Import Prelude Gen Frame FrameProofs Pool PoolProofs.

Definition owns (s : st) (ex : option nat) (id : nat) (f : fr) : Prop := In (id, f) (live s) /\ ex <> Some id.

Record pinv (ex : option nat) (s : st) : Prop := {
  pi_share : forall id1 f1 id2 f2 b, owns s ex id1 f1 -> owns s ex id2 f2 -> f_buf f1 = Some b -> f_buf f2 = Some b -> id1 = id2;
  pi_live_free : forall id f b, owns s ex id f -> f_buf f = Some b -> ~ In b (free s);
  pi_free_nodup : NoDup (free s);
  pi_free_zero : forall b, In b (free s) -> exists bb, lookup b (heap s) = Some bb /\ buf_zero bb = true;
  pi_sfree : forall f, In f (sfree s) -> fr_clean f = true;
  pi_live_heap : forall id f b, owns s ex id f -> f_buf f = Some b -> lookup b (heap s) <> None;
  pi_heap_bound : forall b bb, lookup b (heap s) = Some bb -> (b < nextb s)%nat;
  pi_ids : NoDup (map fst (live s));
  pi_id_bound : forall id f, In (id, f) (live s) -> (id < nextf s)%nat
}.

Definition detached (ex : option nat) (s : st) (b : nat) : Prop :=
  lookup b (heap s) <> None /\ ~ In b (free s) /\ forall id f, owns s ex id f -> f_buf f <> Some b.

Lemma pinv_init : pinv None st_init.
Proof.
  split; unfold owns; cbn.
  - intros id1 f1 id2 f2 b [[] _].
  - intros id f b [[] _].
  - constructor.
  - intros b [].
  - intros f [].
  - intros id f b [[] _].
  - intros b bb H; discriminate.
  - constructor.
  - intros id f [].
Qed.

Lemma pinv_weaken s id : pinv None s -> pinv (Some id) s.
Proof.
  intros [A B C D E F G H J]. split; unfold owns in *; [| |exact C|exact D|exact E| |exact G|exact H|exact J].
  - intros id1 f1 id2 f2 b [H1 _] [H2 _]. apply (A id1 f1 id2 f2 b); split; auto; discriminate.
  - intros i f b [H1 _]. apply (B i f b); split; auto; discriminate.
  - intros i f b [H1 _]. apply (F i f b); split; auto; discriminate.
Qed.

Lemma in_firstn_sub' {A} (x : A) n l : In x (firstn n l) -> In x l.
Proof. intros H. rewrite <- (firstn_skipn n l). apply in_or_app. left. exact H. Qed.
Lemma in_skipn_sub' {A} (x : A) n l : In x (skipn n l) -> In x l.
Proof. intros H. rewrite <- (firstn_skipn n l). apply in_or_app. right. exact H. Qed.

(* ---------- association lists with unique keys ---------- *)
Lemma lookup_in {A} k (v : A) l : lookup k l = Some v -> In (k, v) l.
Proof.
  induction l as [|[k' v'] t IH]; cbn; [discriminate|].
  destruct (Nat.eqb_spec k k') as [->|Hn]; [intros H; inversion H; left; reflexivity|intros H; right; exact (IH H)].
Qed.

Lemma in_update {A} k (v : A) l x w : NoDup (map fst l) -> In (k, v) l \/ True ->
  In (x, w) (update k v l) -> (x = k /\ w = v) \/ (x <> k /\ In (x, w) l).
Proof.
  intros Hn _. induction l as [|[k' v'] t IH]; cbn [update].
  - intros [H|[]]. inversion H. left. split; reflexivity.
  - inversion Hn as [|? ? Hni Hnd]; subst. destruct (Nat.eqb_spec k k') as [->|Hne].
    + intros [H|H]; [inversion H; left; split; reflexivity|].
      right. split; [|right; exact H]. intros ->. apply Hni. change k' with (fst (k', w)). apply in_map. exact H.
    + intros [H|H]; [inversion H; subst; right; split; [congruence|left; reflexivity]|].
      destruct (IH Hnd H) as [L|[R1 R2]]; [left; exact L|right; split; [exact R1|right; exact R2]].
Qed.

Lemma update_keys {A} k (v : A) l : In k (map fst l) -> map fst (update k v l) = map fst l.
Proof.
  induction l as [|[k' v'] t IH]; cbn; [intros []|].
  destruct (Nat.eqb_spec k k') as [->|Hne]; cbn; [reflexivity|]. intros [E|H]; [congruence|]. rewrite (IH H). reflexivity.
Qed.

Lemma in_remove_key {A} k l (x : nat) (w : A) : NoDup (map fst l) -> In (x, w) (remove_key k l) -> x <> k /\ In (x, w) l.
Proof.
  intros Hn. induction l as [|[k' v'] t IH]; cbn [remove_key]; [intros []|].
  inversion Hn as [|? ? Hni Hnd]; subst. destruct (Nat.eqb_spec k k') as [->|Hne].
  - intros H. split; [|right; exact H]. intros ->. apply Hni. change k' with (fst (k', w)). apply in_map. exact H.
  - intros [H|H]; [inversion H; subst; split; [congruence|left; reflexivity]|]. destruct (IH Hnd H). split; [assumption|right; assumption].
Qed.

Lemma remove_key_nodup {A} k (l : list (nat * A)) : NoDup (map fst l) -> NoDup (map fst (remove_key k l)).
Proof.
  induction l as [|[k' v'] t IH]; cbn [remove_key map]; [intros; constructor|]. intros Hn. inversion Hn as [|? ? Hni Hnd]; subst.
  destruct (Nat.eqb k k'); [exact Hnd|]. cbn. constructor; [|exact (IH Hnd)].
  intros H. apply Hni. apply in_map_iff in H. destruct H as ([x w] & Hx & Hin). cbn in Hx. subst x.
  destruct (in_remove_key k t k' w Hnd Hin) as [_ Hin']. change k' with (fst (k', w)). apply in_map. exact Hin'.
Qed.

Lemma remove_nat_in k l x : In x (remove_nat k l) -> In x l.
Proof. induction l as [|a t IH]; cbn; [tauto|]. destruct (Nat.eqb k a); [intros H; right; exact H|intros [H|H]; [left; exact H|right; exact (IH H)]]. Qed.

Lemma remove_nat_nodup k l : NoDup l -> NoDup (remove_nat k l) /\ ~ In k (remove_nat k l).
Proof.
  induction 1 as [|a t Hni Hnd IH]; cbn; [split; [constructor|tauto]|].
  destruct (Nat.eqb_spec k a) as [->|Hne]; [split; assumption|].
  destruct IH as [I1 I2]. split; [constructor; [intros H; apply Hni; exact (remove_nat_in _ _ _ H)|exact I1]|].
  intros [H|H]; [congruence|exact (I2 H)].
Qed.

(* ---------- primitives ---------- *)
Lemma get_slice_inv ex s n c s1 b :
  pinv ex s -> get_slice s n c = (s1, Some b) ->
  pinv ex s1 /\ detached ex s1 b /\ live s1 = live s /\ sfree s1 = sfree s /\ nextf s1 = nextf s /\
  (forall x, In x (free s1) -> In x (free s)) /\
  (forall x, lookup x (heap s) <> None -> lookup x (heap s1) = lookup x (heap s)) /\
  (exists bb, lookup b (heap s1) = Some bb /\ buf_zero bb = true) /\
  (lookup b (heap s) = None \/ In b (free s)).
Proof.
  intros I Hg. pose proof I as [A B C D E F G H J]. unfold get_slice in Hg.
  destruct (tier_of n) as [t|]; [|discriminate].
  assert (Fresh : (mkSt ((nextb s, mkBuf t []) :: heap s) (free s) (live s) (sfree s) (S (nextb s)) (nextf s), Some (nextb s)) = (s1, Some b) ->
    pinv ex s1 /\ detached ex s1 b /\ live s1 = live s /\ sfree s1 = sfree s /\ nextf s1 = nextf s /\
    (forall x, In x (free s1) -> In x (free s)) /\
    (forall x, lookup x (heap s) <> None -> lookup x (heap s1) = lookup x (heap s)) /\
    (exists bb, lookup b (heap s1) = Some bb /\ buf_zero bb = true) /\
    (lookup b (heap s) = None \/ In b (free s))).
  { intros Hf. inversion Hf; subst; clear Hf.
    assert (Hnb : forall x, lookup x (heap s) <> None -> x <> nextb s).
    { intros x Hx ->. destruct (lookup (nextb s) (heap s)) as [bb|] eqn:Eq; [|congruence]. apply G in Eq. lia. }
    assert (Hlk : forall x, lookup x (heap s) <> None -> lookup x ((nextb s, mkBuf t []) :: heap s) = lookup x (heap s)).
    { intros x Hx. cbn. destruct (Nat.eqb_spec x (nextb s)) as [->|]; [exfalso; exact (Hnb _ Hx eq_refl)|reflexivity]. }
    split.
    { split; cbn [heap free live sfree nextb nextf]; auto.
      + intros x Hx. destruct (D x Hx) as (bb & Hb & Hz). exists bb. split; [|exact Hz]. rewrite Hlk; [exact Hb|congruence].
      + intros id f x Ho Hb. unfold owns in Ho. cbn in Ho. rewrite Hlk; [apply (F id f x Ho Hb)|apply (F id f x Ho Hb)].
      + intros x bb. cbn. destruct (Nat.eqb_spec x (nextb s)) as [->|]; [intros _; lia|intros Hx; apply G in Hx; lia]. }
    split.
    { split; [cbn; rewrite Nat.eqb_refl; discriminate|]. split.
      + cbn. intros Hin. destruct (D _ Hin) as (bb & Hb & _). apply G in Hb. lia.
      + intros id f Ho Hb. unfold owns in Ho. cbn in Ho. pose proof (F id f _ Ho Hb) as Hh.
        destruct (lookup (nextb s) (heap s)) as [bb|] eqn:Eq; [apply G in Eq; lia|congruence]. }
    split; [reflexivity|]. split; [reflexivity|]. split; [reflexivity|].
    split; [cbn; auto|]. split; [exact Hlk|].
    split; [cbn; rewrite Nat.eqb_refl; eexists; split; reflexivity|].
    left. destruct (lookup (nextb s) (heap s)) as [bb|] eqn:Eq; [apply G in Eq; lia|reflexivity]. }
  destruct c as [cb|]; [|apply Fresh; exact Hg].
  destruct (lookup cb (heap s)) as [bb|] eqn:Hl; [|apply Fresh; exact Hg].
  destruct (existsb (Nat.eqb cb) (free s) && Nat.eqb (cap bb) t) eqn:Hc; [|apply Fresh; exact Hg].
  inversion Hg; subst; clear Hg Fresh. apply andb_true_iff in Hc. destruct Hc as [Hin _].
  apply existsb_exists in Hin. destruct Hin as (x & Hx & Hxe). apply Nat.eqb_eq in Hxe. subst x.
  destruct (remove_nat_nodup b (free s) C) as [N1 N2].
  split.
  { split; cbn [heap free live sfree nextb nextf]; auto.
    - intros id f x Ho Hb Hi. apply (B id f x Ho Hb). exact (remove_nat_in _ _ _ Hi).
    - intros x Hi. apply D. exact (remove_nat_in _ _ _ Hi). }
  split.
  { split; [cbn; rewrite Hl; discriminate|]. split; [exact N2|].
    intros id f Ho Hb. exact (B id f b Ho Hb Hx). }
  split; [reflexivity|]. split; [reflexivity|]. split; [reflexivity|].
  split; [cbn; intros x Hi; exact (remove_nat_in _ _ _ Hi)|].
  split; [intros x _; reflexivity|].
  split; [cbn; destruct (D b Hx) as (bb' & Hb' & Hz); exists bb'; split; assumption|].
  right. exact Hx.
Qed.

Lemma return_slice_inv ex s b : pinv ex s -> detached ex s b -> pinv ex (return_slice s b).
Proof.
  intros I (Hh & Hnf & Hno). pose proof I as [A B C D E F G H J].
  unfold return_slice. destruct (lookup b (heap s)) as [bb|] eqn:Hl; [|exact I].
  assert (Hlk : forall x, x <> b -> lookup x (update b (mkBuf (cap bb) []) (heap s)) = lookup x (heap s)) by (intros x Hx; apply lookup_update_neq; exact Hx).
  assert (Hhb : forall x bb', lookup x (update b (mkBuf (cap bb) []) (heap s)) = Some bb' -> (x < nextb s)%nat).
  { intros x bb' Hx. destruct (Nat.eq_dec x b) as [->|Hne]; [apply (G b bb Hl)|rewrite Hlk in Hx by exact Hne; exact (G x bb' Hx)]. }
  assert (Hlh : forall id f x, owns s ex id f -> f_buf f = Some x -> lookup x (update b (mkBuf (cap bb) []) (heap s)) <> None).
  { intros id f x Ho Hb. destruct (Nat.eq_dec x b) as [->|Hne]; [rewrite lookup_update_eq; discriminate|rewrite Hlk by exact Hne; exact (F id f x Ho Hb)]. }
  destruct (existsb (Nat.eqb (cap bb)) tiers); split; cbn [heap free live sfree nextb nextf]; auto.
  - intros id f x Ho Hb [<-|Hi]; [exact (Hno id f Ho Hb)|exact (B id f x Ho Hb Hi)].
  - constructor; assumption.
  - intros x [<-|Hi]; [exists (mkBuf (cap bb) []); split; [apply lookup_update_eq|reflexivity]|].
    destruct (D x Hi) as (bx & Hbx & Hz). exists bx. split; [|exact Hz]. rewrite Hlk; [exact Hbx|intros ->; contradiction].
  - intros x Hi. destruct (D x Hi) as (bx & Hbx & Hz). exists bx. split; [|exact Hz]. rewrite Hlk; [exact Hbx|intros ->; contradiction].
Qed.

Lemma set_buf_inv ex s b bb : pinv ex s -> lookup b (heap s) <> None -> ~ In b (free s) -> pinv ex (set_buf s b bb).
Proof.
  intros [A B C D E F G H J] Hh Hnf. unfold set_buf. split; cbn [heap free live sfree nextb nextf]; auto.
  - intros x Hi. destruct (D x Hi) as (bx & Hbx & Hz). exists bx. split; [|exact Hz]. rewrite lookup_update_neq; [exact Hbx|intros ->; contradiction].
  - intros id f x Ho Hb. destruct (Nat.eq_dec x b) as [->|Hne]; [rewrite lookup_update_eq; discriminate|rewrite lookup_update_neq by exact Hne; exact (F id f x Ho Hb)].
  - intros x bx Hx. destruct (Nat.eq_dec x b) as [->|Hne].
    + destruct (lookup b (heap s)) as [b0|] eqn:Eq; [exact (G b b0 Eq)|congruence].
    + rewrite lookup_update_neq in Hx by exact Hne. exact (G x bx Hx).
Qed.

Lemma detached_set_buf ex s b x bb : detached ex s b -> detached ex (set_buf s x bb) b.
Proof.
  intros (H1 & H2 & H3). unfold set_buf. split; [|split; [exact H2|exact H3]]. cbn [heap].
  destruct (Nat.eq_dec b x) as [->|Hne]; [rewrite lookup_update_eq; discriminate|rewrite lookup_update_neq by exact Hne; exact H1].
Qed.

(* attaching a detached buffer to the exempt frame / to a new frame *)
Lemma set_live_inv s id f0 f1 :
  pinv (Some id) s -> lookup id (live s) = Some f0 ->
  (forall b, f_buf f1 = Some b -> detached (Some id) s b) ->
  pinv None (set_live s id f1).
Proof.
  intros [A B C D E F G H J] Hl Hd. unfold set_live.
  assert (Hin0 : In id (map fst (live s))) by (apply lookup_in in Hl; change id with (fst (id, f0)); apply in_map; exact Hl).
  assert (Hu : forall x w, In (x, w) (update id f1 (live s)) -> (x = id /\ w = f1) \/ (x <> id /\ In (x, w) (live s))).
  { intros x w. apply in_update; [exact H|right; exact I]. }
  assert (Ow : forall x w, x <> id -> In (x, w) (live s) -> owns s (Some id) x w) by (intros x w Hx Hi; split; [exact Hi|congruence]).
  split; cbn [heap free live sfree nextb nextf]; auto.
  - intros id1 f1' id2 f2' b [H1 _] [H2 _] Hb1 Hb2. cbn in H1, H2.
    destruct (Hu _ _ H1) as [[-> ->]|[N1 I1]], (Hu _ _ H2) as [[-> ->]|[N2 I2]]; try reflexivity.
    + exfalso. destruct (Hd b Hb1) as (_ & _ & Hno). exact (Hno id2 f2' (Ow _ _ N2 I2) Hb2).
    + exfalso. destruct (Hd b Hb2) as (_ & _ & Hno). exact (Hno id1 f1' (Ow _ _ N1 I1) Hb1).
    + exact (A id1 f1' id2 f2' b (Ow _ _ N1 I1) (Ow _ _ N2 I2) Hb1 Hb2).
  - intros x f b [H1 _] Hb. cbn in H1. destruct (Hu _ _ H1) as [[-> ->]|[N1 I1]].
    + destruct (Hd b Hb) as (_ & Hnf & _). exact Hnf.
    + exact (B x f b (Ow _ _ N1 I1) Hb).
  - intros x f b [H1 _] Hb. cbn in H1. destruct (Hu _ _ H1) as [[-> ->]|[N1 I1]].
    + destruct (Hd b Hb) as (Hh & _ & _). exact Hh.
    + exact (F x f b (Ow _ _ N1 I1) Hb).
  - rewrite update_keys by exact Hin0. exact H.
  - intros x f H1. destruct (Hu _ _ H1) as [[-> ->]|[N1 I1]]; [apply lookup_in in Hl; exact (J id f0 Hl)|exact (J x f I1)].
Qed.

Lemma add_live_inv s f1 :
  pinv None s -> (forall b, f_buf f1 = Some b -> detached None s b) -> pinv None (fst (add_live s f1)).
Proof.
  intros [A B C D E F G H J] Hd. unfold add_live. cbn [fst].
  assert (Ow : forall x w, In (x, w) (live s) -> owns s None x w) by (intros x w Hi; split; [exact Hi|discriminate]).
  split; cbn [heap free live sfree nextb nextf]; auto.
  - intros id1 f1' id2 f2' b [H1 _] [H2 _] Hb1 Hb2. cbn in H1, H2.
    destruct H1 as [E1|I1], H2 as [E2|I2].
    + inversion E1; inversion E2; congruence.
    + inversion E1; subst. exfalso. destruct (Hd b Hb1) as (_ & _ & Hno). exact (Hno id2 f2' (Ow _ _ I2) Hb2).
    + inversion E2; subst. exfalso. destruct (Hd b Hb2) as (_ & _ & Hno). exact (Hno id1 f1' (Ow _ _ I1) Hb1).
    + exact (A id1 f1' id2 f2' b (Ow _ _ I1) (Ow _ _ I2) Hb1 Hb2).
  - intros x f b [[E1|I1] _] Hb; [inversion E1; subst; destruct (Hd b Hb) as (_ & Hnf & _); exact Hnf|exact (B x f b (Ow _ _ I1) Hb)].
  - intros x f b [[E1|I1] _] Hb; [inversion E1; subst; destruct (Hd b Hb) as (Hh & _ & _); exact Hh|exact (F x f b (Ow _ _ I1) Hb)].
  - cbn. constructor; [|exact H]. intros Hi. apply in_map_iff in Hi. destruct Hi as ([x w] & Hx & Hin). cbn in Hx. subst x. apply J in Hin. lia.
  - intros x f [E1|I1]; [inversion E1; lia|apply J in I1; lia].
Qed.

Lemma release_inv s id f0 :
  pinv (Some id) s -> lookup id (live s) = Some f0 ->
  pinv None (mkSt (heap s) (free s) (remove_key id (live s)) (fr_zero :: sfree s) (nextb s) (nextf s)).
Proof.
  intros [A B C D E F G H J] Hl.
  assert (Hr : forall x w, In (x, w) (remove_key id (live s)) -> owns s (Some id) x w).
  { intros x w Hi. destruct (in_remove_key id (live s) x w H Hi) as [N I1]. split; [exact I1|congruence]. }
  split; cbn [heap free live sfree nextb nextf]; auto.
  - intros id1 f1 id2 f2 b [H1 _] [H2 _]. exact (A id1 f1 id2 f2 b (Hr _ _ H1) (Hr _ _ H2)).
  - intros x f b [H1 _]. exact (B x f b (Hr _ _ H1)).
  - intros f [<-|Hf]; [reflexivity|exact (E f Hf)].
  - intros x f b [H1 _]. exact (F x f b (Hr _ _ H1)).
  - apply remove_key_nodup. exact H.
  - intros x f H1. destruct (in_remove_key id (live s) x f H H1) as [_ I1]. exact (J x f I1).
Qed.

(* ---------- composite steps ---------- *)
Lemma return_slice_live s b : live (return_slice s b) = live s /\ sfree (return_slice s b) = sfree s /\ nextf (return_slice s b) = nextf s.
Proof. unfold return_slice. destruct (lookup b (heap s)); [destruct (existsb _ _)|]; repeat split. Qed.

Lemma detached_return_slice ex s b old : detached ex s b -> b <> old -> detached ex (return_slice s old) b.
Proof.
  intros (H1 & H2 & H3) Hne. destruct (return_slice_live s old) as (Lv & _ & _).
  split; [|split].
  - unfold return_slice. destruct (lookup old (heap s)) as [bb|]; [|exact H1].
    destruct (existsb _ _); cbn [heap]; rewrite lookup_update_neq by exact Hne; exact H1.
  - unfold return_slice. destruct (lookup old (heap s)) as [bb|]; [|exact H2].
    destruct (existsb _ _); cbn [free]; [intros [E|Hi]; [congruence|contradiction]|exact H2].
  - intros id f [Hi He]. apply (H3 id f). split; [rewrite <- Lv; exact Hi|exact He].
Qed.

Lemma own_detached s id f b : pinv None s -> lookup id (live s) = Some f -> f_buf f = Some b -> detached (Some id) s b.
Proof.
  intros [A B C D E F G H J] Hl Hb. apply lookup_in in Hl.
  assert (Ho : owns s None id f) by (split; [exact Hl|discriminate]).
  split; [exact (F id f b Ho Hb)|]. split; [exact (B id f b Ho Hb)|].
  intros id2 f2 [Hi2 Hne] Hb2. assert (id = id2) by (apply (A id f id2 f2 b Ho); [split; [exact Hi2|discriminate]|exact Hb|exact Hb2]). congruence.
Qed.

Lemma get_struct_inv ex s sc s0 f0 : pinv ex s -> get_struct s sc = (s0, f0) ->
  pinv ex s0 /\ live s0 = live s /\ heap s0 = heap s /\ free s0 = free s /\ nextf s0 = nextf s /\ f_buf f0 = None.
Proof.
  intros I Hg. pose proof I as [A B C D E F G H J]. unfold get_struct in Hg.
  assert (Z : (s, fr_zero) = (s0, f0) -> pinv ex s0 /\ live s0 = live s /\ heap s0 = heap s /\ free s0 = free s /\ nextf s0 = nextf s /\ f_buf f0 = None).
  { intros Hz. inversion Hz; subst. repeat split; auto. }
  destruct sc as [i|]; [|exact (Z Hg)]. destruct (nth_error (sfree s) i) as [f|] eqn:Hn; [|exact (Z Hg)].
  inversion Hg; subst; clear Hg Z. split; [|repeat split].
  - split; cbn [heap free live sfree nextb nextf]; auto.
    intros x Hx. apply E. apply in_app_or in Hx. destruct Hx as [Hx|Hx]; [exact (in_firstn_sub' _ _ _ Hx)|].
    destruct (sfree s) as [|h l]; [destruct Hx|]. right. exact (in_skipn_sub' _ _ _ Hx).
  - pose proof (E f0 (nth_error_In _ _ Hn)) as Hc. unfold fr_clean in Hc. destruct (f_buf f0); [cbn in Hc; discriminate|reflexivity].
Qed.

Lemma init_frame_gen ex s f ty src dst sb msg apx nonce3 off ovh bc s1 f1 :
  pinv ex s -> (forall b, f_buf f = Some b -> detached ex s b) ->
  init_frame s f ty src dst sb msg apx nonce3 off ovh bc = Ok (s1, f1) ->
  pinv ex s1 /\ live s1 = live s /\ nextf s1 = nextf s /\ sfree s1 = sfree s /\
  (forall b, f_buf f1 = Some b -> detached ex s1 b).
Proof.
  intros I Hd. unfold init_frame.
  set (required := (off + 51 + length sb + length msg + auth_of ty + length apx + ovh)%nat).
  set (cur := match f_buf f with Some b => match lookup b (heap s) with Some bb => cap bb | None => O end | None => O end).
  (* the state and buffer after the (possible) reallocation *)
  assert (Step : forall sA ob,
    (if Nat.ltb cur required
     then let '(s', nb) := get_slice s required bc in
          (match f_buf f with Some old => return_slice s' old | None => s' end, nb)
     else (s, f_buf f)) = (sA, ob) ->
    forall b, ob = Some b ->
      pinv ex sA /\ live sA = live s /\ nextf sA = nextf s /\ sfree sA = sfree s /\ detached ex sA b).
  { intros sA ob Heq b Hob. destruct (Nat.ltb cur required).
    - destruct (get_slice s required bc) as [s' nb] eqn:Hg. inversion Heq; subst sA ob; clear Heq. subst nb.
      destruct (get_slice_inv ex s required bc s' b I Hg) as (I' & D' & Lv & Sf & Nf & Fr & Hp & _ & Prov).
      destruct (f_buf f) as [old|] eqn:Hb; [|split; [exact I'|split; [exact Lv|split; [exact Nf|split; [exact Sf|exact D']]]]].
      destruct (Hd old eq_refl) as (O1 & O2 & O3).
      assert (Hne : b <> old).
      { intros ->. destruct Prov as [P|P]; [congruence|contradiction]. }
      assert (Dold : detached ex s' old).
      { split; [rewrite Hp by exact O1; exact O1|]. split; [intros Hi; exact (O2 (Fr _ Hi))|].
        intros id g [Hi He]. apply (O3 id g). split; [rewrite <- Lv; exact Hi|exact He]. }
      destruct (return_slice_live s' old) as (L2 & S2 & N2).
      split; [apply return_slice_inv; assumption|]. split; [congruence|]. split; [congruence|]. split; [congruence|].
      apply detached_return_slice; assumption.
    - inversion Heq; subst sA ob; clear Heq. split; [exact I|split; [reflexivity|split; [reflexivity|split; [reflexivity|apply Hd; congruence]]]]. }
  destruct (Nat.ltb cur required && match tier_of required with None => true | Some _ => false end); [discriminate|].
  destruct (if Nat.ltb cur required then _ else _) as [sA ob] eqn:Heq.
  destruct ob as [b|]; [|discriminate].
  destruct (Step sA (Some b) eq_refl b eq_refl) as (IA & LA & NA & SA & DA).
  destruct (lookup b (heap sA)) as [bb|] eqn:Hl; [|discriminate].
  destruct (build ty src dst sb msg apx nonce3) as [[d ix]|e|]; try discriminate.
  intros H. inversion H; subst s1 f1; clear H.
  destruct DA as (D1 & D2 & D3).
  split; [apply set_buf_inv; assumption|]. split; [exact LA|]. split; [exact NA|]. split; [exact SA|].
  cbn [f_buf]. intros b' Hb'. inversion Hb'; subst b'. apply detached_set_buf. split; [exact D1|split; [exact D2|exact D3]].
Qed.

Ltac close_add :=
  match goal with |- Ok (add_live ?a ?b) = Ok (?s', ?i) -> _ =>
    let r := fresh "r" in let Er := fresh "Er" in let H := fresh "H" in
    let sx := fresh "sx" in let jx := fresh "jx" in remember (add_live a b) as r eqn:Er; destruct r as [sx jx]; intros H; inversion H; subst sx jx;
    replace s' with (fst (add_live a b)) by (rewrite <- Er; reflexivity) end.

(* every operation keeps the invariant *)
Theorem step_inv s o s' id : pinv None s -> step s o = Ok (s', id) -> pinv None s'.
Proof.
  intros I. destruct o as [ty src dst sb msg apx nonce3 off ovh sc bc|bytes off link sc bc|fid sc bc|fid sb msg apx nonce3 off ovh bc|fid apx ovh bc|fid i v|fid]; cbn [step].
  - (* new *)
    destruct (get_struct s sc) as [s0 f0] eqn:Hg.
    destruct (get_struct_inv None s sc s0 f0 I Hg) as (I0 & _ & _ & _ & _ & Hb0).
    destruct (init_frame s0 f0 ty src dst sb msg apx nonce3 off ovh bc) as [[s1 f1]|e|] eqn:Hi; cbn [bind]; try discriminate.
    assert (Hd0 : forall b, f_buf f0 = Some b -> detached None s0 b) by (intros b Hb; congruence).
    destruct (init_frame_gen _ _ _ _ _ _ _ _ _ _ _ _ _ _ _ I0 Hd0 Hi) as (I1 & _ & _ & _ & D1).
    close_add. apply add_live_inv; assumption.
  - (* parse *)
    destruct (get_struct s sc) as [s0 f0] eqn:Hg.
    destruct (get_struct_inv None s sc s0 f0 I Hg) as (I0 & _ & _ & _ & _ & _).
    destruct (get_slice s0 (off + length bytes) bc) as [s1 ob] eqn:Hs. destruct ob as [b|]; [|discriminate].
    destruct (lookup b (heap s1)) as [bb|] eqn:Hl; [|discriminate].
    destruct (parse bytes) as [ix|e|]; try discriminate.
    destruct (get_slice_inv None s0 _ bc s1 b I0 Hs) as (I1 & (D1 & D2 & D3) & _).
    close_add. apply add_live_inv; [apply set_buf_inv; assumption|].
    cbn [f_buf]. intros b' Hb'. inversion Hb'; subst b'. apply detached_set_buf. split; [exact D1|split; [exact D2|exact D3]].
  - (* clone *)
    destruct (lookup fid (live s)) as [f|] eqn:Hf; [|discriminate].
    destruct (get_struct s sc) as [s0 f0] eqn:Hg.
    destruct (get_struct_inv None s sc s0 f0 I Hg) as (I0 & _ & _ & _ & _ & _).
    destruct (get_slice s0 _ bc) as [s1 ob] eqn:Hs.
    destruct ob as [nb|]; [|discriminate]. destruct (f_buf f) as [b|]; [|discriminate].
    destruct (lookup nb (heap s1)) as [nbb|] eqn:Hl1; [|discriminate].
    destruct (lookup b (heap s1)) as [bb|]; [|discriminate].
    destruct (Nat.leb _ _); [|discriminate].
    destruct (get_slice_inv None s0 _ bc s1 nb I0 Hs) as (I1 & (D1 & D2 & D3) & _).
    close_add. apply add_live_inv; [apply set_buf_inv; assumption|].
    cbn [f_buf]. intros b' Hb'. inversion Hb'; subst b'. apply detached_set_buf. split; [exact D1|split; [exact D2|exact D3]].
  - (* reply *)
    destruct (lookup fid (live s)) as [f|] eqn:Hf; [|discriminate].
    match goal with |- context [init_frame s f ?a ?b ?c ?d ?e ?g ?h ?i ?j ?k] =>
      destruct (init_frame s f a b c d e g h i j k) as [[s1 f1]|er|] eqn:Hi end; cbn [bind]; try discriminate.
    assert (Hd0 : forall b, f_buf f = Some b -> detached (Some fid) s b) by (intros b Hb; exact (own_detached s fid f b I Hf Hb)).
    destruct (init_frame_gen _ _ _ _ _ _ _ _ _ _ _ _ _ _ _ (pinv_weaken s fid I) Hd0 Hi) as (I1 & L1 & _ & _ & D1).
    intros H. inversion H; subst. apply (set_live_inv s1 id f f1 I1); [rewrite L1; exact Hf|exact D1].
  - (* set appendix *)
    destruct (lookup fid (live s)) as [f|] eqn:Hf; [|discriminate].
    destruct (f_buf f) as [b|] eqn:Hb; [|discriminate].
    destruct (lookup b (heap s)) as [bb|] eqn:Hl; [|discriminate].
    pose proof (own_detached s fid f b I Hf Hb) as Db. pose proof (pinv_weaken s fid I) as Iw.
    destruct (Nat.eqb (xi (f_ix f)) 0); [discriminate|].
    destruct (Nat.eqb (length apx) 0).
    { intros H. inversion H; subst. apply (set_live_inv s id f _ Iw Hf). cbn [f_buf]. intros b' Hb'. inversion Hb'; subst b'. exact Db. }
    destruct (_ <? _); [discriminate|].
    destruct (_ || _).
    + destruct (get_slice s _ bc) as [s1 ob] eqn:Hs. destruct ob as [nb|]; [|discriminate].
      destruct (lookup nb (heap s1)) as [nbb|] eqn:Hl1; [|discriminate].
      intros H. inversion H; subst; clear H.
      destruct (get_slice_inv (Some id) s _ bc s1 nb Iw Hs) as (I1 & (D1 & D2 & D3) & L1 & _ & _ & Fr & Hp & _ & Prov).
      destruct Db as (O1 & O2 & O3).
      assert (Hne : nb <> b) by (intros ->; destruct Prov as [P|P]; [congruence|contradiction]).
      set (s2 := set_buf s1 nb _).
      assert (I2 : pinv (Some id) s2) by (apply set_buf_inv; assumption).
      assert (Dold : detached (Some id) s2 b).
      { apply detached_set_buf. split; [rewrite Hp by exact O1; exact O1|]. split; [intros Hi; exact (O2 (Fr _ Hi))|].
        intros i2 g [Hi He]. apply (O3 i2 g). split; [rewrite <- L1; exact Hi|exact He]. }
      assert (Dnew : detached (Some id) s2 nb) by (apply detached_set_buf; split; [exact D1|split; [exact D2|exact D3]]).
      destruct (return_slice_live s2 b) as (L3 & _ & _).
      apply (set_live_inv (return_slice s2 b) id f); [apply return_slice_inv; assumption|rewrite L3; unfold s2; cbn [set_buf live]; rewrite L1; exact Hf|].
      cbn [f_buf]. intros b' Hb'. inversion Hb'; subst b'. apply detached_return_slice; assumption.
    + intros H. inversion H; subst; clear H. destruct Db as (O1 & O2 & O3).
      apply (set_live_inv (set_buf s b _) id f); [apply set_buf_inv; assumption|cbn [set_buf live]; exact Hf|].
      cbn [f_buf]. intros b' Hb'. inversion Hb'; subst b'. apply detached_set_buf. split; [exact O1|split; [exact O2|exact O3]].
  - (* set byte *)
    destruct (lookup fid (live s)) as [f|] eqn:Hf; [|discriminate].
    destruct (f_buf f) as [b|] eqn:Hb; [|discriminate].
    destruct (lookup b (heap s)) as [bb|] eqn:Hl; [|discriminate].
    destruct (Nat.ltb i (f_len f)); [|discriminate].
    intros H. inversion H; subst. destruct (own_detached s id f b I Hf Hb) as (O1 & O2 & _).
    apply set_buf_inv; assumption.
  - (* release *)
    destruct (lookup fid (live s)) as [f|] eqn:Hf; [|discriminate].
    intros H. inversion H; subst; clear H. pose proof (pinv_weaken s id I) as Iw.
    destruct (f_buf f) as [b|] eqn:Hb.
    + destruct (return_slice_live s b) as (L1 & _ & _).
      apply (release_inv (return_slice s b) id f); [apply return_slice_inv; [exact Iw|exact (own_detached s id f b I Hf Hb)]|rewrite L1; exact Hf].
    + apply (release_inv s id f Iw Hf).
Qed.

(* ... and so does every sequence of operations, from the initial state *)
Fixpoint run_ops (s : st) (ops : list op) : st :=
  match ops with
  | [] => s
  | o :: t => match step s o with Ok (s', _) => run_ops s' t | _ => run_ops s t end
  end.

Theorem run_ops_inv : forall ops s, pinv None s -> pinv None (run_ops s ops).
Proof.
  induction ops as [|o t IH]; intros s I; cbn [run_ops]; [exact I|].
  destruct (step s o) as [[s' id]|e|] eqn:Hs; [apply IH; exact (step_inv s o s' id I Hs)|apply IH; exact I|apply IH; exact I].
Qed.

Corollary reachable_pool_inv ops : pinv None (run_ops st_init ops).
Proof. apply run_ops_inv. apply pinv_init. Qed.
