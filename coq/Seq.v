(* Seq.v — executable model of state.SequenceHandler.Check / TimeSequenceHandler.Check
   (state/session_encryption.go, state/session_signing.go).  Model only; proofs in SeqProofs.v. *)
From Verif Require Import Prelude.

Record sh := mkSh { hi : N; bm : N }.

Definition sh_init : sh := {| hi := 0; bm := 0 |}.

(* uint64 << d : Go gives 0 for d >= 64; trunc64 of the unbounded shift is the same value
   (SeqProofs.shl64_spec / Translated.go_shl_shl64), but must not be COMPUTED that way: a jump of
   the sequence number by 2^31 would build a number of 2^31 bits. *)
Definition shl64 (x d : N) : N := if 64 <=? d then 0 else trunc64 (shl x d).
Definition bit64 (k : N) : N := if 64 <=? k then 0 else trunc64 (onebit k).     (* uint64(1) << k *)

(* SequenceHandler.Check as repaired by fix D2: when the window advances, the slot of the
   previous highest sequence number is marked as received. *)
Definition check (s : sh) (q : N) : sh * bool :=
  if q =? hi s then (s, false)                                   (* ErrImmediateDuplicateFrame *)
  else if hi s <? q then
    let d := q - hi s in
    ({| hi := q; bm := N.lor (shl64 (bm s) d) (bit64 (d - 1)) |}, true)
  else
    let d := hi s - q in
    if 64 <? d then (s, false)                                   (* ErrDelayedFrame *)
    else if N.testbit (bm s) (d - 1) then (s, false)             (* ErrDelayedDuplicateFrame *)
    else ({| hi := hi s; bm := N.lor (bm s) (bit64 (d - 1)) |}, true).

(* The function as it stood on the pinned tree (8498d9a): the window advances without
   recording the previous highest.  Kept for Regression.v and for the failing-input search. *)
Definition check_pinned (s : sh) (q : N) : sh * bool :=
  if q =? hi s then (s, false)
  else if hi s <? q then
    let d := q - hi s in
    ({| hi := q; bm := shl64 (bm s) d |}, true)
  else
    let d := hi s - q in
    if 64 <? d then (s, false)
    else if N.testbit (bm s) (d - 1) then (s, false)
    else ({| hi := hi s; bm := N.lor (bm s) (bit64 (d - 1)) |}, true).

Section Run.
  Variable chk : sh -> N -> sh * bool.

  (* verdict of every delivery of a history, and the final state *)
  Fixpoint run (s : sh) (l : list N) : list bool * sh :=
    match l with
    | [] => ([], s)
    | q :: t => let '(s', b) := chk s q in
                let '(bs, sf) := run s' t in (b :: bs, sf)
    end.

  (* the subsequence of a delivery history that is accepted *)
  Fixpoint accepted (s : sh) (l : list N) : list N :=
    match l with
    | [] => []
    | q :: t => let '(s', b) := chk s q in
                if b then q :: accepted s' t else accepted s' t
    end.

  Fixpoint final (s : sh) (l : list N) : sh :=
    match l with [] => s | q :: t => final (fst (chk s q)) t end.
End Run.

(* ---------------- signed frames: TimeSequenceHandler.Check ---------------- *)
(* time.Time compared as an instant; the model uses Z milliseconds (any total order works). *)
Definition tcheck (latest : Z) (t : Z) : Z * bool :=
  if (t =? latest)%Z then (latest, false)
  else if (t <? latest)%Z then (latest, false)
  else (t, true).

Fixpoint taccepted (latest : Z) (l : list Z) : list Z :=
  match l with
  | [] => []
  | t :: r => let '(l', b) := tcheck latest t in
              if b then t :: taccepted l' r else taccepted l' r
  end.

(* ---------------- delivery level: AEAD open, then window check ---------------- *)
(* A delivered frame as the receiver sees it: its sequence number and whether the AEAD
   opens under the current in-key (idealised crypto: it opens iff it is an authentic,
   unmodified frame of this key epoch).  Unseal = In (no state change inside an epoch),
   Open, then Check; a frame that does not open leaves the window untouched. *)
Definition unseal_step (s : sh) (f : N * bool) : sh * bool :=
  let '(q, opens) := f in
  if opens then check s q else (s, false).

Fixpoint delivered (s : sh) (l : list (N * bool)) : list N :=
  match l with
  | [] => []
  | f :: t => let '(s', b) := unseal_step s f in
              if b then fst f :: delivered s' t else delivered s' t
  end.

(* signed frames at the delivery level: signature verification, then the timestamp filter; a frame
   whose signature does not verify leaves the filter untouched *)
Fixpoint tdelivered (latest : Z) (l : list (Z * bool)) : list Z :=
  match l with
  | [] => []
  | (t, verifies) :: r =>
      if verifies then
        let '(l', b) := tcheck latest t in
        if b then t :: tdelivered l' r else tdelivered l' r
      else tdelivered latest r
  end.

(* executable invariant checker used on implementation snapshots *)
Definition sh_wf (s : sh) : bool := (hi s <? 4294967296) && (bm s <? 18446744073709551616).

(* histories in which failed key-setup attempts (InitKeyServer / InitKeyClientComplete returning
   an error) are interleaved with deliveries: a failed attempt leaves keys and windows untouched *)
Inductive dop := DFrame (f : N * bool) | DFailedSetup.
Fixpoint delivered_ops (s : sh) (l : list dop) : list N :=
  match l with
  | [] => []
  | DFailedSetup :: t => delivered_ops s t
  | DFrame f :: t => let '(s', b) := unseal_step s f in
                     if b then fst f :: delivered_ops s' t else delivered_ops s' t
  end.
Definition frames_of (l : list dop) : list (N * bool) :=
  flat_map (fun o => match o with DFrame f => [f] | DFailedSetup => [] end) l.
