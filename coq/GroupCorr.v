(* GroupCorr.v — correspondence for C20 (no proofs): stub modules with the given behaviour in a
   real mgr.Group; observed trace of calls and returned status of Start and of Stop. *)
From Verif Require Import Prelude SeqCorr Group.

Definition call_eqb (a b : call) : bool :=
  match a, b with
  | CStart i, CStart j => Nat.eqb i j
  | CStop i, CStop j => Nat.eqb i j
  | _, _ => false
  end.

Definition c20_case := (list mb * (list call * bool) * (list call * bool))%type.
Definition c20_ok (c : c20_case) : bool :=
  let '(mods, (t1, ok1), (t2, ok2)) := c in
  let '(m1, k1) := g_start mods in
  list_eqb call_eqb m1 t1 && Bool.eqb k1 ok1 &&
  (* Stop is only called after a successful Start *)
  (negb k1 || (let '(m2, k2) := g_stop mods in list_eqb call_eqb m2 t2 && Bool.eqb k2 ok2)).
