(* DnsProofs.v — lemmas about Dns.v (C19). *)
From Verif Require Import Prelude Dns.

(* The answer comes from the first matching source in the fixed order (built-in API names,
   configured resolve entries, forbidden names, friend names, stored mappings), with exactly
   the value that source holds. *)
Theorem lookup_api c n : name_in n api_names = true -> lookup c n = (d_api c, src_internal).
Proof. intros H. unfold lookup. rewrite H. reflexivity. Qed.

Theorem lookup_resolve c n ip :
  name_in n api_names = false -> map_get n (d_resolve c) None = Some ip -> lookup c n = (ip, src_resolve).
Proof. intros H1 H2. unfold lookup. rewrite H1, H2. reflexivity. Qed.

Theorem lookup_forbidden c n :
  name_in n api_names = false -> map_get n (d_resolve c) None = None -> name_in n forbidden_names = true ->
  lookup c n = (0, src_forbidden).
Proof. intros H1 H2 H3. unfold lookup. rewrite H1, H2, H3. reflexivity. Qed.

Theorem lookup_friend c n ip :
  name_in n api_names = false -> map_get n (d_resolve c) None = None -> name_in n forbidden_names = false ->
  friend_get c n = Some ip -> lookup c n = (ip, src_friend).
Proof. intros H1 H2 H3 H4. unfold lookup. rewrite H1, H2, H3, H4. reflexivity. Qed.

Theorem lookup_mapping c n ip :
  name_in n api_names = false -> map_get n (d_resolve c) None = None -> name_in n forbidden_names = false ->
  friend_get c n = None -> map_get n (d_mappings c) None = Some ip -> lookup c n = (ip, src_mapping).
Proof. intros H1 H2 H3 H4 H5. unfold lookup. rewrite H1, H2, H3, H4, H5. reflexivity. Qed.

Theorem lookup_none c n :
  name_in n api_names = false -> map_get n (d_resolve c) None = None -> name_in n forbidden_names = false ->
  friend_get c n = None -> map_get n (d_mappings c) None = None -> lookup c n = (0, src_none).
Proof. intros H1 H2 H3 H4 H5. unfold lookup. rewrite H1, H2, H3, H4, H5. reflexivity. Qed.

(* stored mappings cannot change the answer for a built-in, configured, forbidden or friend name *)
Theorem mapping_cannot_shadow c n maps' :
  name_in n api_names = true \/ map_get n (d_resolve c) None <> None \/ name_in n forbidden_names = true \/ friend_get c n <> None ->
  lookup (mkDcfg (d_api c) (d_resolve c) (d_friends c) maps') n = lookup c n.
Proof.
  unfold lookup, friend_get. cbn [d_api d_resolve d_friends d_mappings].
  intros H. destruct (name_in n api_names); [reflexivity|].
  destruct (map_get n (d_resolve c) None); [reflexivity|].
  destruct (name_in n forbidden_names); [reflexivity|].
  destruct (match cut_suffix n dot_tld with Some f => map_get f (d_friends c) None | None => None end); [reflexivity|].
  exfalso. destruct H as [H|[H|[H|H]]]; try discriminate; apply H; reflexivity.
Qed.

(* only .myco, only address-type queries of class IN/ANY; everything else is a name error;
   never a crash, whatever the question section holds (including nothing) *)
Theorem handle_total c qs : handle_request c qs <> Panic.
Proof.
  unfold handle_request. destruct qs as [|[[qn qt] qc] r]; [discriminate|].
  repeat match goal with |- context [if ?b then _ else _] => destruct b end; try discriminate.
  destruct (lookup c (trim_suffix (to_lower qn) dot)) as [ip s].
  destruct ((s =? src_internal) || (s =? src_resolve) || (s =? src_friend) || (s =? src_mapping)); discriminate.
Qed.

Theorem handle_filters c qn qt qc r :
  has_suffix (to_lower qn) tld_between_dots = false \/ type_ok qt = false \/ class_ok qc = false ->
  handle_request c ((qn, qt, qc) :: r) = Ok (rcode_nxdomain, 0, src_none).
Proof.
  intros H. unfold handle_request.
  destruct (has_suffix (to_lower qn) tld_between_dots); cbn [negb]; [|reflexivity].
  destruct (type_ok qt); cbn [negb]; [|reflexivity].
  destruct (class_ok qc); cbn [negb]; [|reflexivity].
  destruct H as [H|[H|H]]; discriminate.
Qed.

Theorem handle_empty c : handle_request c [] = Ok (rcode_nxdomain, 0, src_none).
Proof. reflexivity. Qed.

(* an answer is exactly what lookup says for the lower-cased name without the trailing dot *)
Theorem handle_answer c qn qt qc r rc ip s :
  handle_request c ((qn, qt, qc) :: r) = Ok (rc, ip, s) -> rc = rcode_success ->
  has_suffix (to_lower qn) tld_between_dots = true /\ type_ok qt = true /\ class_ok qc = true /\
  lookup c (trim_suffix (to_lower qn) dot) = (ip, s) /\ s <> src_none /\ s <> src_forbidden.
Proof.
  unfold handle_request. intros H Hrc.
  destruct (has_suffix (to_lower qn) tld_between_dots); cbn [negb] in H; [|inversion H; subst; discriminate].
  destruct (type_ok qt); cbn [negb] in H; [|inversion H; subst; discriminate].
  destruct (class_ok qc); cbn [negb] in H; [|inversion H; subst; discriminate].
  destruct (lookup c (trim_suffix (to_lower qn) dot)) as [ip' s'] eqn:Hl.
  destruct ((s' =? src_internal) || (s' =? src_resolve) || (s' =? src_friend) || (s' =? src_mapping)) eqn:Hs;
    inversion H; subst; [|discriminate].
  repeat split; try reflexivity.
  - intros ->. discriminate.
  - intros ->. discriminate.
Qed.
