(* SeqCorr.v — correspondence functions: the model evaluated on the inputs the implementation
   ran, compared with what the implementation was observed to do.  No proofs here. *)
From Verif Require Import Prelude Seq.

Fixpoint mismatch_idx_from {A} (ok : A -> bool) (n : nat) (l : list A) : list nat :=
  match l with
  | [] => []
  | c :: t => if ok c then mismatch_idx_from ok (S n) t else n :: mismatch_idx_from ok (S n) t
  end.
Definition mismatch_idx {A} (ok : A -> bool) (l : list A) : list nat := mismatch_idx_from ok 0 l.

(* one observed step: verdict, highest, bitmap *)
Definition obs := (bool * N * N)%type.
Definition obs_eqb (a b : obs) : bool :=
  let '(v1, h1, b1) := a in let '(v2, h2, b2) := b in
  Bool.eqb v1 v2 && (h1 =? h2) && (b1 =? b2).

Fixpoint trace (s : sh) (l : list N) : list obs :=
  match l with
  | [] => []
  | q :: t => let '(s', b) := check s q in (b, hi s', bm s') :: trace s' t
  end.

(* layer 1: history of sequence numbers, observed steps *)
Definition c03_case := (list N * list obs)%type.
Definition c03_ok (c : c03_case) : bool :=
  let '(h, o) := c in list_eqb obs_eqb (trace sh_init h) o.

(* layers 2,3: history of (sequence number, copy is intact), observed steps *)
Fixpoint dtrace (s : sh) (l : list (N * bool)) : list obs :=
  match l with
  | [] => []
  | f :: t => let '(s', b) := unseal_step s f in (b, hi s', bm s') :: dtrace s' t
  end.
(* the receiver window restarts with highest = 0 but keeps whatever bitmap it had (Reset does
   not clear it), so the start bitmap is part of the case *)
Definition c03_dcase := (N * list (N * bool) * list obs)%type.
Definition c03_dok (c : c03_dcase) : bool :=
  let '(b0, h, o) := c in list_eqb obs_eqb (dtrace {| hi := 0; bm := b0 |} h) o.

(* layer 4: signed frames: timestamps (ms) delivered, observed verdicts.
   The receiver starts at Go's zero time, far below any Unix-epoch millisecond. *)
Definition t_zero : Z := (-62135596800000)%Z.
Fixpoint ttrace (latest : Z) (l : list Z) : list bool :=
  match l with
  | [] => []
  | t :: r => let '(l', b) := tcheck latest t in b :: ttrace l' r
  end.
Definition c03_tcase := (list Z * list bool)%type.
Definition c03_tok (c : c03_tcase) : bool :=
  let '(h, o) := c in list_eqb Bool.eqb (ttrace t_zero h) o.
