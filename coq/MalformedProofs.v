(* MalformedProofs.v — no input makes a slice or index expression go out of range (C13). *)
From Verif Require Import Prelude Malformed.

Lemma gslice_ok len lo hi : (lo <= hi)%nat -> (hi <= len)%nat -> gslice len lo hi = Ok (hi - lo)%nat.
Proof.
  intros H1 H2. unfold gslice.
  replace (Nat.leb lo hi) with true by (symmetry; apply Nat.leb_le; exact H1).
  replace (Nat.leb hi len) with true by (symmetry; apply Nat.leb_le; exact H2). reflexivity.
Qed.

Theorem ping_split_no_panic len b1 hdr_ok : ping_split len b1 hdr_ok <> Panic.
Proof.
  unfold ping_split. destruct (Nat.ltb_spec len 3) as [|H3]; [discriminate|].
  unfold gindex. replace (Nat.ltb 1 len) with true by (symmetry; apply Nat.ltb_lt; lia).
  destruct (Nat.ltb_spec len (2 + N.to_nat b1)) as [|Hh]; [discriminate|].
  rewrite gslice_ok by lia. destruct (negb hdr_ok); [discriminate|].
  rewrite gslice_ok by lia. discriminate.
Qed.

(* what the handler gets: header and body lie inside the message and do not overlap *)
Theorem ping_split_bounds len b1 hdr_ok h b : ping_split len b1 hdr_ok = Ok (h, b) -> (2 + h + b = len)%nat /\ h = N.to_nat b1.
Proof.
  unfold ping_split. destruct (Nat.ltb_spec len 3) as [|H3]; [discriminate|].
  unfold gindex. replace (Nat.ltb 1 len) with true by (symmetry; apply Nat.ltb_lt; lia). cbv beta iota.
  destruct (Nat.ltb_spec len (2 + N.to_nat b1)) as [|Hh]; [discriminate|].
  rewrite gslice_ok by lia. cbv beta iota. destruct (negb hdr_ok); [discriminate|].
  rewrite gslice_ok by lia. cbv beta iota. intros H. inversion H. lia.
Qed.

Theorem ann_loop_no_panic : forall fuel infos len i, ann_loop infos len i fuel <> Panic.
Proof.
  induction fuel as [|k IH]; intros infos len i; cbn [ann_loop]; [discriminate|].
  destruct (Nat.eqb len 0); [discriminate|]. destruct (Nat.eqb i 100); [discriminate|].
  destruct (Nat.ltb_spec len 65) as [|H65]; [discriminate|].
  rewrite gslice_ok by lia.
  destruct infos as [|x rest]; [discriminate|].
  destruct (negb (l_dec x)); [discriminate|]. destruct (l_self x); [discriminate|]. destruct (negb (l_sess x)); [discriminate|].
  rewrite gslice_ok by lia. destruct (negb (l_sig x)); [discriminate|].
  specialize (IH rest (l_next x) (S i)). destruct (ann_loop rest (l_next x) (S i) k); try discriminate. contradiction.
Qed.

Theorem ann_layers_no_panic infos len : ann_layers infos len <> Panic.
Proof. apply ann_loop_no_panic. Qed.

(* at most 99 hop records are ever accepted *)
Theorem ann_loop_depth : forall fuel infos len i n, ann_loop infos len i fuel = Ok n -> (i + n <= 100)%nat \/ (100 < i)%nat.
Proof.
  induction fuel as [|k IH]; intros infos len i n; cbn [ann_loop]; [discriminate|].
  destruct (Nat.eqb len 0); [intros H; inversion H; lia|].
  destruct (Nat.eqb_spec i 100) as [|Hi]; [discriminate|].
  destruct (Nat.ltb len 65); [discriminate|].
  destruct (gslice len 0 (len - 64)); try discriminate.
  destruct infos as [|x rest]; [discriminate|].
  destruct (negb (l_dec x)); [discriminate|]. destruct (l_self x); [discriminate|]. destruct (negb (l_sess x)); [discriminate|].
  destruct (gslice len (len - 64) len); try discriminate. destruct (negb (l_sig x)); [discriminate|].
  destruct (ann_loop rest (l_next x) (S i) k) as [m| |] eqn:E; try discriminate.
  intros H. inversion H; subst. apply IH in E. lia.
Qed.

Theorem traffic_meta_no_panic len proto : traffic_meta len proto <> Panic.
Proof.
  unfold traffic_meta. destruct (Nat.ltb_spec len 44) as [|H]; [discriminate|].
  rewrite !gslice_ok by lia. unfold gindex. replace (Nat.ltb 6 len) with true by (symmetry; apply Nat.ltb_lt; lia).
  destruct ((proto =? 6) || (proto =? 17)); discriminate.
Qed.

(* ---------- frame parsing, switching ---------- *)
From Verif Require Import Gen Frame FrameProofs SwitchLabel SwitchLabelProofs Table Control Forward.

Theorem parse_no_panic d : parse d <> Panic.
Proof.
  unfold parse. destruct d as [|v t]; [discriminate|]. destruct (v =? 1); [|discriminate].
  unfold parse_v1. destruct (_ <? _); [discriminate|]. destruct (Nat.ltb _ _); [discriminate|].
  destruct (Nat.ltb _ _); discriminate.
Qed.

(* after a successful parse every accessor slice lies inside the frame *)
Theorem parse_accessors_in_range d ix : parse d = Ok ix ->
  (49 <= mi ix)%nat /\ (mi ix + 2 <= ai ix)%nat /\ (ai ix <= xi ix)%nat /\ (xi ix <= length d)%nat.
Proof. intros H. apply parse_inv in H. destruct H as (_ & Hm & Ha & Hx & Hl & _). lia. Qed.

Theorem rotate_no_panic block extra ret : ret < 65536 -> rotate block extra ret <> Panic.
Proof.
  intros Hr. unfold rotate. destruct (uvarint block) as [nx n].
  destruct (n =? 0)%Z; [discriminate|]. destruct (n <? 0)%Z; [discriminate|].
  destruct (Nat.leb _ _); [|discriminate].
  destruct (N.ltb_spec 0 ret) as [Hp|Hz]; cbn [andb]; [|discriminate].
  assert (Hok : label_ok ret = true) by (unfold label_ok; apply andb_true_iff; split; [apply N.ltb_lt; exact Hp|apply N.ltb_lt; exact Hr]).
  rewrite all_nz_no_zero by (apply all_nz_rev, enc_nonzero; exact Hok). discriminate.
Qed.

(* no frame, switch block, link map or routing table makes the switch or the router's forwarding crash *)
Theorem switch_handle_no_panic nd f recv flag :
  (forall r, recv = Some r -> lnk_label r < 65536) -> switch_handle nd f recv flag <> OPanic.
Proof.
  intros Hl. unfold switch_handle. destruct (ff_src f =? n_self nd); [discriminate|].
  assert (Hr : forall g, router_handle nd g recv flag <> OPanic).
  { intros g. unfold router_handle. destruct (ff_dst g =? n_self nd); [discriminate|]. destruct (is_hop_ping (ff_ty g)); [discriminate|].
    unfold route_frame. destruct (negb (routable (ff_dst g))); [discriminate|].
    destruct (lookup_nearest_route _ _) as [[e m]|]; [|discriminate].
    destruct (match recv with Some r => _ | None => false end); [discriminate|].
    destruct (link_by_peer nd (e_nexthop e)); [|discriminate]. unfold forward_to_link. destruct (_ =? 0); discriminate. }
  destruct (ff_sb f) as [|b sb]; [apply Hr|].
  destruct recv as [r|]; [|discriminate].
  pose proof (rotate_no_panic (b :: sb) [] (lnk_label r) (Hl r eq_refl)) as Hn.
  destruct (rotate (b :: sb) [] (lnk_label r)) as [[[next sb'] ex]| |]; [|discriminate|contradiction].
  destruct (next =? 0); [apply Hr|]. destruct (link_by_label nd next); [|discriminate].
  unfold forward_to_link. destruct (_ =? 0); discriminate.
Qed.
