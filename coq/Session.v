(* Session.v — executable model of state.EncryptionSession's sequence and key-epoch logic:
   SequenceHandler.NextOut / RolloverRequired / Reset, EncryptionSession.Out / In / Check.
   Keys are modelled by their epoch: key_{n+1} = rollover(key_n); two endpoints share the
   chains (A's out chain is B's in chain).  Window checks come from Seq.v. *)
From Verif Require Import Prelude Gen Seq.

Record sq := mkSq { q_hi : N; q_bm : N; q_out : N }.            (* one SequenceHandler *)
Record ep := mkEp { e_regl : sq; e_prio : sq; e_oute : nat; e_ine : nat }.

Definition two32 : N := 4294967296.
Definition sq_zero : sq := mkSq 0 0 0.
Definition ep_init : ep := mkEp sq_zero sq_zero 0 0.

(* NextOut: atomic add; 0 is skipped and signals a rollover *)
Definition next_out (q : sq) : sq * N * bool :=
  let s := (q_out q + 1) mod two32 in
  if s =? 0 then (mkSq (q_hi q) (q_bm q) 1, 1, true)
  else (mkSq (q_hi q) (q_bm q) s, s, false).

(* RolloverRequired (mutates highest when it fires) *)
Definition rollover_required (q : sq) (seq : N) : sq * bool :=
  if q_hi q <? Gen.state_rolloverUpperBound then (q, false)
  else if Gen.state_rolloverLowerBound <? seq then (q, false)
  else (mkSq 0 (q_bm q) (q_out q), true).

(* the two halves of the priority handler's state that a regular rollover restarts *)
Definition reset_out (q : sq) : sq := mkSq (q_hi q) (q_bm q) 0.
Definition reset_in (q : sq) : sq := mkSq 0 (q_bm q) (q_out q).
(* Reset as it stood before fix D17: both halves at once *)
Definition reset_both (q : sq) : sq := mkSq 0 (q_bm q) 0.

Section Resets.
  (* which reset the out path and the in path apply to the priority handler *)
  Variable rst_on_out rst_on_in : sq -> sq.

  (* Out: (sequence number, key epoch) to seal with, or an error *)
  Definition out_gen (e : ep) (prio : bool) : ep * res (N * nat) :=
    if prio then
      let '(q, s, roll) := next_out (e_prio e) in
      if roll then (mkEp (e_regl e) q (e_oute e) (e_ine e), Err 1)
      else (mkEp (e_regl e) q (e_oute e) (e_ine e), Ok (s, e_oute e))
    else
      let '(q, s, roll) := next_out (e_regl e) in
      if roll then (mkEp q (rst_on_out (e_prio e)) (S (e_oute e)) (e_ine e), Ok (s, S (e_oute e)))
      else (mkEp q (e_prio e) (e_oute e) (e_ine e), Ok (s, e_oute e)).

  (* In: the key epoch handed to the AEAD open, or an error *)
  Definition in_gen (e : ep) (seq : N) (prio : bool) : ep * res nat :=
    if prio then
      let '(q, req) := rollover_required (e_prio e) seq in
      if req then (mkEp (e_regl e) q (e_oute e) (e_ine e), Err 1)
      else (e, Ok (e_ine e))
    else
      let '(q, req) := rollover_required (e_regl e) seq in
      if req then (mkEp q (rst_on_in (e_prio e)) (e_oute e) (S (e_ine e)), Ok (S (e_ine e)))
      else (e, Ok (e_ine e)).
End Resets.

Definition out_ := out_gen reset_out.
Definition in_ := in_gen reset_in.
Definition out_pinned := out_gen reset_both.
Definition in_pinned := in_gen reset_both.

(* window check of a class *)
Definition check_class (e : ep) (seq : N) (prio : bool) : ep * bool :=
  let q := if prio then e_prio e else e_regl e in
  let '(s', ok) := check (mkSh (q_hi q) (q_bm q)) seq in
  let q' := mkSq (hi s') (bm s') (q_out q) in
  (if prio then mkEp (e_regl e) q' (e_oute e) (e_ine e) else mkEp q' (e_prio e) (e_oute e) (e_ine e), ok).

(* Unseal of a frame that was sealed under key epoch [fe] with sequence number [seq]:
   In, then AEAD open (succeeds iff the epochs agree — ideal AEAD, distinct epochs are distinct
   keys), then the window check *)
Definition unseal_at (e : ep) (fe : nat) (seq : N) (prio : bool) : ep * bool :=
  let '(e1, r) := in_ e seq prio in
  match r with
  | Ok k => if Nat.eqb k fe then check_class e1 seq prio else (e1, false)
  | _ => (e1, false)
  end.

(* ---------- operation sequences on one endpoint ---------- *)
Inductive sop :=
| SOut (prio : bool)
| SIn (seq : N) (prio : bool) (fe : nat).

(* emitted = every (epoch, class, sequence number) handed out for sealing, newest first;
   wrapped = a priority-class wrap happened (refused by the sender; outside the claim) *)
Fixpoint run_ops (outf : ep -> bool -> ep * res (N * nat)) (inf : ep -> N -> bool -> ep * res nat)
         (e : ep) (l : list sop) (emitted : list (nat * bool * N)) (wrapped : bool)
  : ep * list (nat * bool * N) * bool :=
  match l with
  | [] => (e, emitted, wrapped)
  | SOut p :: t =>
    let '(e', r) := outf e p in
    match r with
    | Ok (s, k) => run_ops outf inf e' t ((k, p, s) :: emitted) wrapped
    | _ => run_ops outf inf e' t emitted true
    end
  | SIn s p fe :: t =>
    let '(e', _) := inf e s p in run_ops outf inf e' t emitted wrapped
  end.
