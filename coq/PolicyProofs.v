(* PolicyProofs.v — lemmas about Policy.v (C06). *)
From Verif Require Import Prelude Gen Policy.

Lemma key_eqb_eq a b : key_eqb a b = true <-> a = b.
Proof.
  unfold key_eqb. destruct a as [a1 a2], b as [b1 b2]. cbn [fst snd]. split.
  - intros H. apply andb_true_iff in H as [H1 H2]. apply N.eqb_eq in H1, H2. subst. reflexivity.
  - intros H. inversion H; subst. rewrite !N.eqb_refl. reflexivity.
Qed.

Lemma lookup_key_app k p q :
  lookup_key k (p ++ q) = match lookup_key k p with Some r => Some r | None => lookup_key k q end.
Proof.
  induction p as [|[k' r] t IH]; cbn [app lookup_key]; [reflexivity|].
  destruct (key_eqb k k'); [reflexivity|exact IH].
Qed.

(* add_keys appends one entry per protocol, all of them new *)
Lemma add_keys_spec protos : forall p port r p',
  add_keys p protos port r = Ok p' ->
  (forall pr, In pr protos -> lookup_key (pr, port) p = None) /\
  (forall k, lookup_key k p' =
     match lookup_key k p with
     | Some x => Some x
     | None => if existsb (fun pr => key_eqb k (pr, port)) protos then Some r else None
     end).
Proof.
  induction protos as [|pr t IH]; intros p port r p' H; cbn [add_keys] in H.
  - inversion H; subst. split; [intros ? []|]. intros k. cbn [existsb]. destruct (lookup_key k p'); reflexivity.
  - destruct (lookup_key (pr, port) p) eqn:Hl; [discriminate|].
    destruct (IH _ _ _ _ H) as [Hnone Hlk]. split.
    + intros x [<-|Hx]; [exact Hl|]. specialize (Hnone x Hx). rewrite lookup_key_app in Hnone.
      destruct (lookup_key (x, port) p); [discriminate|reflexivity].
    + intros k. rewrite Hlk, lookup_key_app. cbn [lookup_key existsb].
      destruct (lookup_key k p) as [x|]; [reflexivity|].
      destruct (key_eqb k (pr, port)); reflexivity.
Qed.

Lemma map_opt_in {A B} (f : A -> option B) l r : map_opt f l = Some r ->
  forall y, In y r <-> exists x, In x l /\ f x = Some y.
Proof.
  revert r; induction l as [|x t IH]; intros r H y; cbn [map_opt] in H.
  - inversion H; subst. split; [intros []|intros (x & [] & _)].
  - destruct (f x) as [fx|] eqn:Hfx; [|discriminate]. destruct (map_opt f t) as [rt|] eqn:Hrt; [|discriminate].
    inversion H; subst r; clear H. specialize (IH rt eq_refl y). split.
    + intros [<-|Hin]; [exists x; split; [left; reflexivity|exact Hfx]|].
      apply IH in Hin as (x' & Hx' & Hf'). exists x'. split; [right; exact Hx'|exact Hf'].
    + intros (x' & [<-|Hx'] & Hf'); [left; congruence|]. right. apply IH. exists x'. split; assumption.
Qed.

Lemma existsb_Neqb x l : existsb (N.eqb x) l = true <-> In x l.
Proof.
  rewrite existsb_exists. split.
  - intros (y & Hy & He). apply N.eqb_eq in He. subst. exact Hy.
  - intros H. exists x. split; [exact H|apply N.eqb_refl].
Qed.

(* the stored rule admits exactly the senders the service's access rule admits *)
Lemma rule_access fr s forips sender :
  map_opt (resolve_for fr) (s_for s) = Some forips ->
  (match svc_rule fr s forips with None => true | Some l => existsb (N.eqb sender) l end = true
   <-> access_ok fr s sender).
Proof.
  intros Hm. unfold svc_rule, access_ok. destruct (s_public s) eqn:Hp.
  - split; [intros _; left; reflexivity|reflexivity].
  - rewrite existsb_Neqb, in_app_iff. rewrite (map_opt_in _ _ _ Hm). split.
    + intros [H|H]; [|right; right; exact H].
      destruct (s_friends s) eqn:Hf; [right; left; split; [reflexivity|exact H]|destruct H].
    + intros [H|[[Hf H]|H]]; [discriminate| |right; exact H]. rewrite Hf. left. exact H.
Qed.

Definition Inv (fr : list (N * N)) (p : policy) (done : list svc) : Prop :=
  (forall s proto port, In s done -> svc_key s proto port ->
     exists forips, map_opt (resolve_for fr) (s_for s) = Some forips /\
                    lookup_key (proto, port) p = Some (svc_rule fr s forips)) /\
  (forall proto port r, lookup_key (proto, port) p = Some r -> exists s, In s done /\ svc_key s proto port).

Lemma existsb_key proto port protos port' :
  existsb (fun pr => key_eqb (proto, port) (pr, port')) protos = true <-> In proto protos /\ port = port'.
Proof.
  rewrite existsb_exists. split.
  - intros (pr & Hin & He). apply key_eqb_eq in He. inversion He; subst. split; [exact Hin|reflexivity].
  - intros [Hin ->]. exists proto. split; [exact Hin|apply key_eqb_eq; reflexivity].
Qed.

Lemma compile_svc_inv fr p done s p' :
  Inv fr p done -> compile_svc fr p s = Ok p' -> Inv fr p' (done ++ [s]).
Proof.
  intros [HA HB] Hc. unfold compile_svc in Hc.
  destruct (negb (s_public s) && negb (s_friends s) && match s_for s with [] => true | _ => false end); [discriminate|].
  destruct (map_opt (resolve_for fr) (s_for s)) as [forips|] eqn:Hm; [|discriminate].
  destruct (scheme_info (s_scheme s)) as [[protos dflt]|] eqn:Hs; [|discriminate].
  destruct (eff_port dflt (s_port s)) as [port0|] eqn:He; [|discriminate].
  destruct (s_public s && (s_friends s || match s_for s with [] => false | _ => true end)); [discriminate|].
  destruct (add_keys_spec _ _ _ _ _ Hc) as [Hnone Hlk].
  split.
  - intros s' proto port Hin Hk. apply in_app_iff in Hin as [Hin|[<-|[]]].
    + destruct (HA _ _ _ Hin Hk) as (f' & Hf' & Hl'). exists f'. split; [exact Hf'|]. rewrite Hlk, Hl'. reflexivity.
    + exists forips. split; [exact Hm|].
      destruct Hk as (protos' & dflt' & Hs' & Hinp & He'). rewrite Hs in Hs'. inversion Hs'; subst protos' dflt'.
      rewrite He in He'. inversion He'; subst port0.
      rewrite Hlk, (Hnone _ Hinp).
      replace (existsb (fun pr => key_eqb (proto, port) (pr, port)) protos) with true
        by (symmetry; apply existsb_key; split; [exact Hinp|reflexivity]).
      reflexivity.
  - intros proto port r Hl. rewrite Hlk in Hl.
    destruct (lookup_key (proto, port) p) as [x|] eqn:Hold.
    + destruct (HB _ _ _ Hold) as (s' & Hin' & Hk'). exists s'. split; [apply in_app_iff; left; exact Hin'|exact Hk'].
    + destruct (existsb (fun pr => key_eqb (proto, port) (pr, port0)) protos) eqn:Hex; [|discriminate].
      apply existsb_key in Hex as [Hinp ->]. exists s. split; [apply in_app_iff; right; left; reflexivity|].
      exists protos, dflt. repeat split; assumption.
Qed.

Lemma compile_from_inv fr l : forall p done p',
  Inv fr p done -> compile_from fr p l = Ok p' -> Inv fr p' (done ++ l).
Proof.
  induction l as [|s t IH]; intros p done p' HI Hc; cbn [compile_from] in Hc.
  - inversion Hc; subst. rewrite app_nil_r. exact HI.
  - destruct (compile_svc fr p s) as [p1| |] eqn:Hs; cbn [bind] in Hc; try discriminate.
    replace (done ++ s :: t) with ((done ++ [s]) ++ t) by (rewrite <- app_assoc; reflexivity).
    eapply IH; [|exact Hc]. eapply compile_svc_inv; eassumption.
Qed.

(* the compiled policy admits exactly what the configuration's services admit *)
Theorem compile_refines_spec c p proto port sender :
  compile c = Ok p -> (check_in p proto port sender = true <-> admits c proto port sender).
Proof.
  intros Hc. unfold compile in Hc.
  assert (HI : Inv (c_friends c) p ([] ++ c_services c)).
  { eapply compile_from_inv; [|exact Hc]. split; [intros ? ? ? []|]. intros ? ? ? H. discriminate. }
  cbn [app] in HI. destruct HI as [HA HB]. unfold check_in, admits. split.
  - intros H. destruct (lookup_key (proto, port) p) as [r|] eqn:Hl; [|discriminate].
    destruct (HB _ _ _ Hl) as (s & Hin & Hk). exists s. split; [exact Hin|]. split; [exact Hk|].
    destruct (HA _ _ _ Hin Hk) as (forips & Hm & Hl'). rewrite Hl in Hl'. inversion Hl'; subst r.
    apply (rule_access _ _ _ _ Hm). exact H.
  - intros (s & Hin & Hk & Hacc). destruct (HA _ _ _ Hin Hk) as (forips & Hm & Hl). rewrite Hl.
    apply (rule_access _ _ _ _ Hm). exact Hacc.
Qed.

(* without a matching service: default deny *)
Corollary default_deny c p proto port sender :
  compile c = Ok p -> (forall s, In s (c_services c) -> ~ svc_key s proto port) ->
  check_in p proto port sender = false.
Proof.
  intros Hc Hno. destruct (check_in p proto port sender) eqn:E; [|reflexivity].
  apply (compile_refines_spec _ _ _ _ _ Hc) in E. destruct E as (s & Hin & Hk & _). exfalso. exact (Hno s Hin Hk).
Qed.

(* ---------- the router's per-packet decisions (fresh connection cache entry) ---------- *)
Theorem inbound_delivers_iff c pol ch handle unsealed fsrc fdst k :
  cache_get (p_dst k, p_src k, p_proto k, dport_of k, sport_of k) ch = None ->
  (fst (inbound c pol ch handle unsealed fsrc fdst k) = Deliver <->
   unsealed = true /\ (44 <= p_len k)%nat /\ handle = true /\ p_src k = fsrc /\ p_dst k = fdst /\
   in_internal fdst = false /\ check_in pol (p_proto k) (dport_of k) (p_src k) = true).
Proof.
  intros Hfresh. unfold inbound.
  destruct unsealed; cbn [negb]; [|split; [discriminate|intros (H & _); discriminate]].
  destruct (Nat.ltb_spec (p_len k) 44) as [Hl|Hl]; [split; [discriminate|intros (_ & H & _); lia]|].
  destruct handle; cbn [negb]; [|split; [discriminate|intros (_ & _ & H & _); discriminate]].
  destruct (N.eqb_spec (p_src k) fsrc) as [Hs|Hs]; cbn [negb]; [|split; [discriminate|intros (_ & _ & _ & H & _); contradiction]].
  destruct (N.eqb_spec (p_dst k) fdst) as [Hd|Hd]; cbn [negb]; [|split; [discriminate|intros (_ & _ & _ & _ & H & _); contradiction]].
  destruct (in_internal fdst) eqn:Hi; [split; [discriminate|intros (_ & _ & _ & _ & _ & H & _); discriminate]|].
  unfold check_policy. rewrite Hfresh.
  destruct (check_in pol (p_proto k) (dport_of k) (p_src k)) eqn:Hc; cbn [fst].
  - split; [intros _; repeat split; assumption|reflexivity].
  - split; [discriminate|intros (_ & _ & _ & _ & _ & _ & H); discriminate].
Qed.

Theorem outbound_enters_iff c pol ch handle api k :
  cache_get (p_src k, p_dst k, p_proto k, sport_of k, dport_of k) ch = None ->
  (fst (outbound c pol ch handle api k) = Deliver <->
   p_ver k = 6 /\ (44 <= p_len k)%nat /\ p_dst k <> api /\ handle = true /\
   in_multicast (p_dst k) = false /\ in_fd00_8 (p_dst k) = true /\ p_src k = c_self c /\
   (c_isolate c = false \/ In (p_dst k) (map snd (c_friends c)))).
Proof.
  intros Hfresh. unfold outbound.
  destruct (Nat.eqb_spec (p_len k) 0) as [H0|H0]; [split; [discriminate|intros (_ & H & _); lia]|].
  destruct (N.eqb_spec (p_ver k) 6) as [Hv|Hv]; cbn [negb]; [|split; [discriminate|intros (H & _); contradiction]].
  destruct (Nat.ltb_spec (p_len k) 44) as [Hl|Hl]; [split; [discriminate|intros (_ & H & _); lia]|].
  destruct (N.eqb_spec (p_dst k) api) as [Ha|Ha]; [split; [discriminate|intros (_ & _ & H & _); contradiction]|].
  destruct handle; cbn [negb]; [|split; [discriminate|intros (_ & _ & _ & H & _); discriminate]].
  destruct (in_multicast (p_dst k)) eqn:Hm; [split; [discriminate|intros (_ & _ & _ & _ & H & _); discriminate]|].
  destruct (in_fd00_8 (p_dst k)) eqn:Hf; cbn [negb]; [|split; [discriminate|intros (_ & _ & _ & _ & _ & H & _); discriminate]].
  destruct (N.eqb_spec (p_src k) (c_self c)) as [Hs|Hs]; cbn [negb]; [|split; [discriminate|intros (_ & _ & _ & _ & _ & _ & H & _); contradiction]].
  unfold check_policy. rewrite Hfresh.
  destruct (c_isolate c) eqn:Hiso; cbn [negb orb fst].
  - destruct (existsb (N.eqb (p_dst k)) (map snd (c_friends c))) eqn:He; cbn [fst].
    + split; [intros _|reflexivity]. repeat split; try assumption. right. apply existsb_Neqb. exact He.
    + split; [discriminate|]. intros (_ & _ & _ & _ & _ & _ & _ & [H|H]); [discriminate|].
      apply existsb_Neqb in H. congruence.
  - split; [intros _|reflexivity]. repeat split; try assumption. left. reflexivity.
Qed.

(* cache soundness: along any sequence of inbound/outbound decisions under one configuration,
   every entry created by an inbound decision stores exactly the policy's verdict *)
Definition cache_sound (pol : policy) (ch : cache) : Prop :=
  forall loc rem proto lport rport st,
    cache_get (loc, rem, proto, lport, rport) ch = Some (true, st) ->
    (st = st_allowed <-> check_in pol proto lport rem = true) .

Lemma ckey_eqb_eq a b : ckey_eqb a b = true <-> a = b.
Proof.
  destruct a as [[[[a1 a2] a3] a4] a5], b as [[[[b1 b2] b3] b4] b5]. unfold ckey_eqb. split.
  - intros H. repeat (apply andb_true_iff in H as [H ?]). repeat match goal with E : (_ =? _) = true |- _ => apply N.eqb_eq in E end. subst. reflexivity.
  - intros H. inversion H; subst. rewrite !N.eqb_refl. reflexivity.
Qed.

Lemma check_policy_sound c pol ch inb k st ch' :
  cache_sound pol ch -> check_policy c pol ch inb k = (st, ch') -> cache_sound pol ch'.
Proof.
  intros Hs Hc. unfold check_policy in Hc. destruct (cache_get k ch) as [[i s]|] eqn:Hg.
  - inversion Hc; subst. exact Hs.
  - destruct k as [[[[loc rem] proto] lport] rport]. inversion Hc; subst ch' st; clear Hc.
    intros loc' rem' proto' lport' rport' st' Hget. cbn [cache_get] in Hget.
    destruct (ckey_eqb (loc', rem', proto', lport', rport') (loc, rem, proto, lport, rport)) eqn:He.
    + apply ckey_eqb_eq in He. inversion He; subst. inversion Hget; subst.
      destruct (check_in pol proto lport rem); split; intros H; try reflexivity; try discriminate.
    + eapply Hs. exact Hget.
Qed.

Theorem inbound_cache_sound c pol ch handle unsealed fsrc fdst k :
  cache_sound pol ch -> cache_sound pol (snd (inbound c pol ch handle unsealed fsrc fdst k)).
Proof.
  intros Hs. unfold inbound.
  repeat match goal with |- context [if ?b then _ else _] => destruct b; [exact Hs|] end.
  destruct (check_policy c pol ch true (p_dst k, p_src k, p_proto k, dport_of k, sport_of k)) as [st ch'] eqn:Hc.
  cbn [snd]. eapply check_policy_sound; eassumption.
Qed.

Theorem outbound_cache_sound c pol ch handle api k :
  cache_sound pol ch -> cache_sound pol (snd (outbound c pol ch handle api k)).
Proof.
  intros Hs. unfold outbound.
  repeat match goal with |- context [if ?b then _ else _] => destruct b; [exact Hs|] end.
  destruct (check_policy c pol ch false (p_src k, p_dst k, p_proto k, sport_of k, dport_of k)) as [st ch'] eqn:Hc.
  cbn [snd]. eapply check_policy_sound; eassumption.
Qed.

(* ---------- histories: what error pings can and cannot do to an inbound decision ---------- *)
Lemma cache_get_mark_router ch k remote st :
  cache_get k (mark_router ch remote st) =
  match cache_get k ch with
  | Some (inb, s) => let '(_, rem, _, _, _) := k in Some (inb, if rem =? remote then st else s)
  | None => None
  end.
Proof.
  induction ch as [|[[[[[l r] p] lp] rp] [inb s]] t IH]; cbn [mark_router map cache_get]; [reflexivity|].
  destruct k as [[[[kl kr] kp] klp] krp].
  destruct (N.eqb_spec r remote) as [->|Hne]; cbn [cache_get].
  - destruct (ckey_eqb (kl, kr, kp, klp, krp) (l, remote, p, lp, rp)) eqn:E.
    + unfold ckey_eqb in E. apply andb_true_iff in E. destruct E as [E _]. apply andb_true_iff in E. destruct E as [E _].
      apply andb_true_iff in E. destruct E as [E _]. apply andb_true_iff in E. destruct E as [_ E]. apply N.eqb_eq in E. subst kr.
      rewrite N.eqb_refl. reflexivity.
    + exact IH.
  - destruct (ckey_eqb (kl, kr, kp, klp, krp) (l, r, p, lp, rp)) eqn:E.
    + unfold ckey_eqb in E. apply andb_true_iff in E. destruct E as [E _]. apply andb_true_iff in E. destruct E as [E _].
      apply andb_true_iff in E. destruct E as [E _]. apply andb_true_iff in E. destruct E as [_ E]. apply N.eqb_eq in E. subst kr.
      replace (r =? remote) with false by (symmetry; apply N.eqb_neq; exact Hne). reflexivity.
    + exact IH.
Qed.

(* an inbound packet whose connection state is cached with a status other than "allowed" is
   dropped — whatever that status is (denied, prohibited, unreachable, rejected, ...) *)
Theorem inbound_cached_not_allowed_drops c pol ch handle unsealed fsrc fdst k inb st :
  cache_get (p_dst k, p_src k, p_proto k, dport_of k, sport_of k) ch = Some (inb, st) -> st <> st_allowed ->
  fst (inbound c pol ch handle unsealed fsrc fdst k) = Drop.
Proof.
  intros Hc Hst. unfold inbound.
  repeat match goal with |- context [if ?b then (Drop, ch) else _] => destruct b; [reflexivity|] end.
  unfold check_policy. rewrite Hc. cbn [fst]. replace (st =? st_allowed) with false by (symmetry; apply N.eqb_neq; exact Hst). reflexivity.
Qed.

(* re-marking by an error ping with a status other than "allowed" never turns a denied
   connection into a deliverable one *)
Theorem mark_router_keeps_denied ch k remote st inb s :
  cache_get k ch = Some (inb, s) -> s <> st_allowed -> st <> st_allowed ->
  exists s', cache_get k (mark_router ch remote st) = Some (inb, s') /\ s' <> st_allowed.
Proof.
  intros Hc Hs Hst. rewrite cache_get_mark_router, Hc. destruct k as [[[[kl kr] kp] klp] krp].
  destruct (kr =? remote); eexists; split; try reflexivity; assumption.
Qed.


(* ---------- the passage of time (HAge) never re-opens a connection ---------- *)
Lemma ckey_eqb_true a b : ckey_eqb a b = true -> a = b.
Proof.
  destruct a as [[[[a1 a2] a3] a4] a5], b as [[[[b1 b2] b3] b4] b5]. unfold ckey_eqb.
  rewrite !andb_true_iff, !N.eqb_eq. intros [[[[-> ->] ->] ->] ->]. reflexivity.
Qed.

Lemma cache_get_age k ch long :
  cache_get k (age_cache ch long) = if long then None else if short_lived k then None else cache_get k ch.
Proof.
  unfold age_cache. destruct long; [reflexivity|].
  induction ch as [|[k' v] t IH]; cbn [filter cache_get fst]; [destruct (short_lived k); reflexivity|].
  destruct (short_lived k') eqn:Sk'; cbn [negb].
  - destruct (ckey_eqb k k') eqn:E; [apply ckey_eqb_true in E; subst; rewrite Sk' in *; exact IH|exact IH].
  - cbn [cache_get]. destruct (ckey_eqb k k') eqn:E; [apply ckey_eqb_true in E; subst; rewrite Sk'; reflexivity|exact IH].
Qed.

(* After any pause, an inbound packet is handed to the local interface only if it would have been
   before the pause, or the inbound policy itself admits it: time never turns "denied" into
   "allowed". *)
Theorem age_never_opens c pol ch long handle unsealed fsrc fdst k :
  fst (inbound c pol (age_cache ch long) handle unsealed fsrc fdst k) = Deliver ->
  fst (inbound c pol ch handle unsealed fsrc fdst k) = Deliver \/
  check_in pol (p_proto k) (dport_of k) (p_src k) = true.
Proof.
  unfold inbound.
  repeat match goal with |- context [if ?b then (Drop, _) else _] => destruct b; [cbn; discriminate|] end.
  unfold check_policy. rewrite cache_get_age.
  destruct (check_in pol (p_proto k) (dport_of k) (p_src k)) eqn:Ck; [intros _; right; reflexivity|].
  destruct long; [cbn; discriminate|]. destruct (short_lived _); [cbn; discriminate|].
  destruct (cache_get _ ch) as [[inb st]|]; cbn [fst]; intros H; left; exact H.
Qed.
