(* GossipDelivers.v — C09 ∘ C10: the tables that the mesh of announcement handlers builds
   (GossipNet.v) satisfy the hypothesis of the forwarding model's delivery theorem
   (ForwardProofs.converged_delivery).
   Invariant, kept by every step of the mesh: whenever a router r holds a route to d whose next
   hop is x, then x is a neighbour of r and either x = d, or x holds a route to d with strictly
   fewer hops.  With TableBest.add_route_best_mono (AddRoute never makes the best route worse) and
   TableSorted.lookup_exact_best (a lookup returns the route with the fewest hops) this makes
   "hops of my best route to d" a rank that strictly decreases along next hops, which is what
   converged_delivery asks for — in EVERY reachable state of the mesh, not only quiescent ones.
   Honest mesh as in GossipNet.v; in addition links are symmetric, and the tables start with
   direct-peer routes only (what Peering.AddLink puts there). *)
From Verif Require Import Prelude SwitchLabel Table TableProofs TableSorted TableBounds TableBest Control ControlProofs Gossip GossipProofs GossipRefine GossipNet.

Section Delivers.
  Variable nodes : list N.
  Variable adj : N -> N -> bool.
  Variable cfg : N -> list rprefix.
  Variable lab lat : N -> N -> N.
  Hypothesis nodes_small : (length nodes <= 98)%nat.
  Hypothesis adj_irrefl : forall a, adj a a = false.
  Hypothesis adj_sym : forall a b, adj a b = adj b a.

  Notation nbrs := (neighbours nodes adj).
  Notation cstep := (cstep nodes adj cfg lab lat).
  Notation wf := (wf nodes).

  (* r's route e is backed by its next hop *)
  Definition entry_ok (c : cnet) (r : N) (e : entry) : Prop :=
    In (e_nexthop e) (nbrs r) /\
    (e_nexthop e = e_dst e \/ (2 <= e_thops e /\ reach_le (c_tbl c (e_nexthop e)) (e_dst e) (e_thops e - 1))).

  (* an announcement in flight comes from a neighbour that holds the route it advertises *)
  Definition flight_ok (c : cnet) (m : cmsg) : Prop :=
    In (cm_from m) (nbrs (cm_to m)) /\
    match a_chain (cm_ann m) with
    | [] => True
    | _ => reach_le (c_tbl c (cm_from m)) (a_origin (cm_ann m)) (N.of_nat (length (a_chain (cm_ann m))))
    end.

  Definition inv (c : cnet) : Prop :=
    (forall r, tswf (c_tbl c r)) /\
    (forall r e, In e (c_tbl c r) -> entry_ok c r e) /\
    Forall (flight_ok c) (c_flight c).

  (* ---------- the route built from an announcement ---------- *)
  Lemma ann_route_nexthop r x a : e_nexthop (ann_route r (link_to lab lat r x) a) = x.
  Proof. reflexivity. Qed.

  Lemma ann_route_thops r x a : (length (a_chain a) <= 97)%nat ->
    calc_thops (e_path (ann_route r (link_to lab lat r x) a)) = N.of_nat (length (a_chain a) + 1).
  Proof.
    intros H. unfold calc_thops. rewrite (ann_route_len nodes adj cfg lab lat nodes_small adj_irrefl).
    replace (length (a_chain a) + 2)%nat with (S (length (a_chain a) + 1)) by lia.
    destruct (length (a_chain a) + 1)%nat as [|n] eqn:E; [lia|].
    destruct (Nat.leb_spec (S n) 254) as [L|L]; [reflexivity|exfalso; lia].
  Qed.

  Lemma ann_route_source_peer r x a : e_source (ann_route r (link_to lab lat r x) a) = src_peer <-> a_chain a = [].
  Proof.
    unfold ann_route, link_to. cbn [e_source]. destruct (a_chain a) as [|h t]; cbn [map]; split; intros H; try reflexivity; try discriminate.
  Qed.

  Lemma ann_route_shape_ok r x a : (length (a_chain a) <= 97)%nat ->
    let e0 := ann_route r (link_to lab lat r x) a in
    (e_source e0 = src_peer -> (length (e_path e0) <= 2)%nat) /\
    (e_source e0 <> src_peer -> (3 <= length (e_path e0) <= 255)%nat).
  Proof.
    intros H e0. unfold e0. rewrite (ann_route_len nodes adj cfg lab lat nodes_small adj_irrefl). split; intros Hs.
    - apply ann_route_source_peer in Hs. rewrite Hs. cbn. lia.
    - destruct (a_chain a) as [|h t] eqn:E; [exfalso; apply Hs; apply ann_route_source_peer; exact E|]. cbn [length] in *. lia.
  Qed.

  (* reach_le at a router survives a step of the mesh *)
  Lemma reach_le_weaken t d k k' : reach_le t d k -> k <= k' -> reach_le t d k'.
  Proof. intros (x & Hx & Hd & Hk) H. exists x. split; [exact Hx|split; [exact Hd|lia]]. Qed.

  Lemma reach_upd c r t' :
    (forall d k, reach_le (c_tbl c r) d k -> reach_le t' d k) ->
    forall y d k, reach_le (c_tbl c y) d k -> reach_le (upd (c_tbl c) r t' y) d k.
  Proof. intros Hm y d k H. unfold upd. destruct (N.eqb_spec y r) as [->|_]; [apply Hm; exact H|exact H]. Qed.

  Theorem cstep_inv c c' : wf c -> inv c -> cstep c c' -> inv c'.
  Proof.
    intros Hwf (Hsw & Hent & Hfl) Hstep.
    destruct Hstep as [c id o rl ex info Ho Hid news|c pre m post now Hflt Hne Hnp Hd|c pre m post now t' added fw Hflt r Hne Hadm Hd news].
    - (* announce: tables unchanged, fresh frames from o to its neighbours *)
      split; [exact Hsw|]. split; [exact Hent|].
      cbn [c_flight]. apply Forall_app. split; [exact Hfl|].
      unfold news. rewrite Forall_forall. intros x Hx. apply in_map_iff in Hx. destruct Hx as (y & <- & Hy).
      apply in_neighbours in Hy. destruct Hy as [Hyn Hya].
      unfold flight_ok. cbn [cm_from cm_to cm_ann a_chain]. split; [|exact I].
      apply in_neighbours. split; [exact Ho|rewrite adj_sym; exact Hya].
    - (* ignored *)
      split; [exact Hsw|]. split; [exact Hent|]. cbn [c_flight]. rewrite Hflt in Hfl. exact (proj2 (forall_mid _ _ _ _ Hfl)).
    - (* handled *)
      destruct (handled_cases nodes adj cfg lab lat nodes_small adj_irrefl c pre m post now t' added fw Hwf Hflt Hne Hd) as (Hm & Ho & Hl & Ha & Hfw).
      fold r in Ho, Hl, Ha, Hfw.
      pose proof (chain_short nodes nodes_small m Hm) as Hshort.
      destruct Hwf as (_ & Ht & _ & _). destruct (Ht r) as [Hs Hw].
      rewrite Hflt in Hfl. destruct (forall_mid _ _ _ _ Hfl) as [Hfm Hrest]. destruct Hfm as [Hfrom Hback].
      set (e0 := ann_route r (link_to lab lat r (cm_from m)) (cm_ann m)) in *.
      destruct (ann_route_shape_ok r (cm_from m) (cm_ann m) Hshort) as [Hp Hnpp]. fold e0 in Hp, Hnpp.
      assert (Hlen : (length (e_path e0) <= 255)%nat).
      { unfold e0. rewrite (ann_route_len nodes adj cfg lab lat nodes_small adj_irrefl). lia. }
      destruct (add_route_sorted _ _ _ _ _ _ Hs Hw Hlen Ha) as [Hs' Hw'].
      assert (Hmono : forall d k, reach_le (c_tbl c r) d k -> reach_le t' d k).
      { intros d k. exact (add_route_best_mono _ _ _ _ _ _ d k Hs Hw (Hsw r) Hp Hnpp Ha). }
      pose proof (reach_upd c r t' Hmono) as Hupd.
      assert (Hth : calc_thops (e_path e0) = N.of_nat (length (a_chain (cm_ann m)) + 1)) by (apply ann_route_thops; exact Hshort).
      assert (Hnew : forall y, same_route y e0 -> e_thops y = calc_thops (e_path e0) -> swf y /\ entry_ok (mkC (upd (c_tbl c) r t') (pre ++ post ++ news) (if added then (r, a_origin (cm_ann m)) :: c_learned c else c_learned c) (c_hist c ++ map abs news) (abs m :: c_deliv c) (c_anns c)) r y).
      { intros y (Sd & Sn & Sp & Ss & _) Hty. split.
        - split; intros Hsrc; rewrite Hty; [apply calc_thops_peer; apply Hp; congruence|apply calc_thops_np; apply Hnpp; congruence].
        - unfold entry_ok. cbn [c_tbl]. rewrite Sn, Sd. unfold e0 at 1 2 3. rewrite ann_route_nexthop, ann_route_dst.
          split; [exact Hfrom|].
          destruct Hm as (_ & _ & Hfr & _).
          destruct (a_chain (cm_ann m)) as [|h tl] eqn:Ech.
          + left. symmetry. exact Hfr.
          + right. rewrite Hty, Hth. cbn [length] in *. split; [lia|].
            apply Hupd. eapply reach_le_weaken; [exact Hback|lia]. }
      split; [|split].
      + (* system-producible shapes *)
        intros r0. cbn [c_tbl]. unfold upd. destruct (N.eqb_spec r0 r) as [->|_]; [|apply Hsw].
        intros y Hy. destruct (add_route_sub _ _ _ _ _ _ y Hs Hw Ha Hy) as [Hold|[Hsame Hty]]; [apply (Hsw r); exact Hold|exact (proj1 (Hnew y Hsame Hty))].
      + (* every route is backed by its next hop *)
        intros r0 y Hy. cbn [c_tbl] in Hy.
        assert (Hkeep : forall r1 z, entry_ok c r1 z -> entry_ok (mkC (upd (c_tbl c) r t') (pre ++ post ++ news) (if added then (r, a_origin (cm_ann m)) :: c_learned c else c_learned c) (c_hist c ++ map abs news) (abs m :: c_deliv c) (c_anns c)) r1 z).
        { intros r1 z (Hn & Hz). split; [exact Hn|]. destruct Hz as [Hz|[H2 Hz]]; [left; exact Hz|right; split; [exact H2|]]. cbn [c_tbl]. apply Hupd. exact Hz. }
        unfold upd in Hy. destruct (N.eqb_spec r0 r) as [->|_].
        * destruct (add_route_sub _ _ _ _ _ _ y Hs Hw Ha Hy) as [Hold|[Hsame Hty]]; [apply Hkeep; apply Hent; exact Hold|exact (proj2 (Hnew y Hsame Hty))].
        * apply Hkeep. apply Hent. exact Hy.
      + (* frames in flight *)
        cbn [c_flight]. rewrite app_assoc. apply Forall_app. split.
        * rewrite Forall_forall in Hrest |- *. intros z Hz. destruct (Hrest z Hz) as [Hzn Hzb]. split; [exact Hzn|].
          destruct (a_chain (cm_ann z)); [exact I|]. cbn [c_tbl]. apply Hupd. exact Hzb.
        * unfold news. rewrite Forall_forall. intros z Hz. apply in_map_iff in Hz. destruct Hz as (y & <- & Hy).
          rewrite Hfw in Hy. destruct added; [|destruct Hy].
          apply in_targets in Hy. destruct Hy as (Hyn & Hya & _).
          unfold flight_ok, push. cbn [cm_from cm_to cm_ann a_chain a_origin length c_tbl]. split.
          -- apply in_neighbours. split; [exact (proj2 (proj2 (proj2 (proj2 (proj2 Hm)))))|rewrite adj_sym; exact Hya].
          -- unfold upd. rewrite N.eqb_refl.
             destruct (add_route_added _ _ _ _ _ Ha) as (e & He & Hsame).
             exists e. split; [exact He|]. destruct Hsame as (Sd & _ & Sp & _). split; [rewrite Sd; apply ann_route_dst|].
             destruct (Hw' e He) as [Hpw _]. rewrite Hpw, Sp. fold e0. rewrite Hth. lia.
  Qed.
End Delivers.

(* ---------- from the invariant to the delivery theorem of the forwarding model ---------- *)
From Verif Require Import Gen Forward ForwardProofs.

Lemma lookup_route_of_nearest t d e : lookup_nearest t d = Some (e, true) -> lookup_nearest_route t d = Some (e, true).
Proof.
  unfold lookup_nearest, lookup_nearest_route. destruct (find_index t d) as [[i m]|]; [|discriminate].
  destruct (nth_error t i) as [x|]; [|discriminate]. intros H. inversion H; subst. reflexivity.
Qed.

Lemma find_link lab lat r x : forall L, In x L ->
  exists l, find (fun l => lnk_peer l =? x) (map (link_to lab lat r) L) = Some l /\ lnk_peer l = x.
Proof.
  induction L as [|y L IH]; intros H; [destruct H|]. cbn [map find].
  change (lnk_peer (link_to lab lat r y)) with y.
  destruct (N.eqb_spec y x) as [->|Hne]; [eexists; split; reflexivity|].
  destruct H as [H|H]; [contradiction|]. exact (IH H).
Qed.

Section Composition.
  Variable nodes : list N.
  Variable adj : N -> N -> bool.
  Variable cfg : N -> list rprefix.
  Variable lab lat : N -> N -> N.
  Hypothesis nodes_small : (length nodes <= 98)%nat.
  Hypothesis adj_irrefl : forall a, adj a a = false.
  Hypothesis adj_sym : forall a b, adj a b = adj b a.

  Notation nbrs := (neighbours nodes adj).

  (* the forwarding model's view of the mesh in state c *)
  Definition node_of (c : cnet) (r : N) : node := mkNode r (links_of nodes adj lab lat r) (c_tbl c r).
  Definition rlink_of (c : cnet) (r p : N) : option lnk := link_by_peer (node_of c r) p.
  (* hops of r's best route to b *)
  Definition best (c : cnet) (b r : N) : nat :=
    if r =? b then O
    else match lookup_nearest (c_tbl c r) b with Some (e, _) => N.to_nat (e_thops e) | None => O end.

  Lemma best_route c b r : wf nodes c -> r <> b -> knows (c_tbl c r) b ->
    exists e, lookup_nearest (c_tbl c r) b = Some (e, true) /\ In e (c_tbl c r) /\ e_dst e = b /\
              best c b r = N.to_nat (e_thops e) /\ 1 <= e_thops e /\
              forall k, reach_le (c_tbl c r) b k -> e_thops e <= k.
  Proof.
    intros (_ & Ht & _ & _) Hne Hk. destruct (Ht r) as [Hs Hw].
    destruct (lookup_exact_best _ b Hs Hw Hk) as (e & Hl & He & Hd & Hmin).
    exists e. split; [exact Hl|]. split; [exact He|]. split; [exact Hd|]. split; [|split].
    - unfold best. destruct (N.eqb_spec r b); [contradiction|]. rewrite Hl. reflexivity.
    - destruct (pwf_ewf e (Hw e He)). assumption.
    - intros k (x & Hx & Hxd & Hxk). specialize (Hmin x Hx Hxd). unfold sle in Hmin. apply std_le_iff in Hmin.
      destruct Hmin as [Hlt|(_ & [Hlt|(Heq & _)])]; lia.
  Qed.

  (* every router other than b looks up a next hop that is a neighbour and strictly closer to b *)
  Theorem mesh_progress c b : wf nodes c -> inv nodes adj c ->
    (forall r, In r nodes -> r <> b -> knows (c_tbl c r) b) ->
    forall r, In r nodes -> r <> b ->
    exists e m l, lookup_nearest_route (n_table (node_of c r)) b = Some (e, m) /\
                  link_by_peer (node_of c r) (e_nexthop e) = Some l /\ lnk_peer l = e_nexthop e /\
                  In (e_nexthop e) nodes /\ (best c b (e_nexthop e) < best c b r)%nat.
  Proof.
    intros Hwf (_ & Hent & _) Hknows r Hr Hne.
    destruct (best_route c b r Hwf Hne (Hknows r Hr Hne)) as (e & Hl & He & Hd & Hb & H1 & _).
    destruct (Hent r e He) as [Hnb Hback].
    destruct (find_link lab lat r (e_nexthop e) (nbrs r) Hnb) as (l & Hfind & Hlp).
    exists e, true, l. split; [apply lookup_route_of_nearest; exact Hl|]. split; [exact Hfind|]. split; [exact Hlp|].
    apply in_neighbours in Hnb. destruct Hnb as [Hnn _]. split; [exact Hnn|].
    rewrite Hb. destruct (N.eq_dec (e_nexthop e) b) as [E|E].
    - unfold best. rewrite E, N.eqb_refl. lia.
    - destruct Hback as [Hx|[H2 Hreach]]; [congruence|]. rewrite Hd in Hreach.
      assert (Hk' : knows (c_tbl c (e_nexthop e)) b) by (destruct Hreach as (x & Hx & Hxd & _); exists x; auto).
      destruct (best_route c b (e_nexthop e) Hwf E Hk') as (e' & _ & _ & _ & Hb' & _ & Hmin').
      rewrite Hb'. specialize (Hmin' _ Hreach). lia.
  Qed.

  (* ---------- executions that start with direct-peer routes only ---------- *)
  Definition init_peers (c : cnet) : Prop :=
    forall r e, In e (c_tbl c r) ->
      e_source e = src_peer /\ e_thops e = 1 /\ e_nexthop e = e_dst e /\ In (e_dst e) (nbrs r).

  Inductive preach : cnet -> Prop :=
  | preach0 c : init_ok c -> init_peers c -> preach c
  | preachS c c' : preach c -> cstep nodes adj cfg lab lat c c' -> preach c'.

  Lemma preach_creach c : preach c -> creach nodes adj cfg lab lat c.
  Proof. induction 1 as [c Hi _|c c' _ IH Hs]; [apply creach0; exact Hi|eapply creachS; eassumption]. Qed.

  Lemma init_inv c : init_ok c -> init_peers c -> inv nodes adj c.
  Proof.
    intros (Hf & _) Hp. split; [|split].
    - intros r e He. destruct (Hp r e He) as (Hs & Ht & _). split; intros H; [exact Ht|contradiction].
    - intros r e He. destruct (Hp r e He) as (_ & _ & Hn & Hd). split; [rewrite Hn; exact Hd|left; exact Hn].
    - rewrite Hf. constructor.
  Qed.

  Theorem preach_inv c : preach c -> wf nodes c /\ inv nodes adj c.
  Proof.
    induction 1 as [c Hi Hp|c c' _ [Hw Hv] Hs].
    - split; [apply init_wf; exact Hi|apply init_inv; assumption].
    - split; [exact (cstep_wf nodes adj cfg lab lat nodes_small adj_irrefl c c' Hw Hs)|
              exact (cstep_inv nodes adj cfg lab lat nodes_small adj_irrefl adj_sym c c' Hw Hv Hs)].
  Qed.

  (* ---------- hop counts are bounded by the number of routers ---------- *)
  Definition hops_bounded (c : cnet) : Prop :=
    forall r e, In e (c_tbl c r) -> e_thops e <= N.of_nat (length nodes).

  Lemma cstep_hops_bounded c c' : wf nodes c -> hops_bounded c -> cstep nodes adj cfg lab lat c c' -> hops_bounded c'.
  Proof.
    intros Hwf Hb Hstep.
    destruct Hstep as [c id o rl ex info Ho Hid news|c pre m post now Hflt Hne Hnp Hd|c pre m post now t' added fw Hflt r Hne Hadm Hd news]; [exact Hb|exact Hb|].
    destruct (handled_cases nodes adj cfg lab lat nodes_small adj_irrefl c pre m post now t' added fw Hwf Hflt Hne Hd) as (Hm & Ho & Hl & Ha & _).
    fold r in Ho, Hl, Ha.
    pose proof (chain_short nodes nodes_small m Hm) as Hshort.
    destruct Hwf as (_ & Ht & _ & _). destruct (Ht r) as [Hs Hw].
    intros r0 y Hy. cbn [c_tbl] in Hy. unfold upd in Hy. destruct (N.eqb_spec r0 r) as [->|_]; [|exact (Hb r0 y Hy)].
    destruct (add_route_sub _ _ _ _ _ _ y Hs Hw Ha Hy) as [Hold|[_ Hty]]; [exact (Hb r y Hold)|].
    rewrite Hty. rewrite (ann_route_thops nodes adj cfg lab lat nodes_small adj_irrefl adj_sym) by exact Hshort.
    destruct Hm as (_ & _ & _ & Hnd & Hincl & Hto).
    assert (Hnd' : NoDup (r :: a_origin (cm_ann m) :: map r_signer (a_chain (cm_ann m)))).
    { constructor; [|exact Hnd]. intros [E|I]; [apply Ho; exact E|exact (Hl I)]. }
    assert (Hincl' : incl (r :: a_origin (cm_ann m) :: map r_signer (a_chain (cm_ann m))) nodes).
    { intros z [<-|Hz]; [exact Hto|exact (Hincl z Hz)]. }
    pose proof (NoDup_incl_length Hnd' Hincl') as Hlen. cbn [length] in Hlen. rewrite map_length in Hlen. lia.
  Qed.

  Lemma init_hops_bounded c : init_peers c -> hops_bounded c.
  Proof.
    intros Hp r e He. destruct (Hp r e He) as (_ & Ht & _ & Hd). rewrite Ht.
    apply in_neighbours in Hd. destruct Hd as [Hd _]. destruct nodes as [|x l]; [destruct Hd|]. cbn [length]. lia.
  Qed.

  Theorem preach_hops_bounded c : preach c -> hops_bounded c.
  Proof.
    induction 1 as [c Hi Hp|c c' Hpr IH Hs]; [apply init_hops_bounded; exact Hp|].
    exact (cstep_hops_bounded c c' (proj1 (preach_inv c Hpr)) IH Hs).
  Qed.

  Lemma best_bounded c b a : preach c -> (best c b a <= length nodes)%nat.
  Proof.
    intros Hp. unfold best. destruct (a =? b); [lia|].
    destruct (lookup_nearest (c_tbl c a) b) as [[e m]|] eqn:Hl; [|lia].
    assert (He : In e (c_tbl c a)).
    { unfold lookup_nearest in Hl. destruct (find_index (c_tbl c a) b) as [[i m']|]; [|discriminate].
      destruct (nth_error (c_tbl c a) i) as [x|] eqn:Hx; [|discriminate]. inversion Hl; subst. exact (nth_error_In _ _ Hx). }
    pose proof (preach_hops_bounded c Hp a e He). lia.
  Qed.

  (* In every state the mesh of announcement handlers can reach — quiescent or not — a frame that
     router a originates for a router b every router knows a route to, with a TTL above the hop
     count of a's best route, is handed to b's handlers (and to nobody else's: deliver is a
     function) with its content. *)
  Theorem gossip_mesh_delivers c b a f flag :
    preach c -> routable b = true -> In a nodes -> a <> b ->
    (forall r, In r nodes -> r <> b -> knows (c_tbl c r) b) ->
    ff_src f = a -> ff_dst f = b -> ff_sb f = [] -> is_hop_ping (ff_ty f) = false ->
    N.of_nat (best c b a) < ff_ttl f ->
    exists f', deliver_from_origin (node_of c) (rlink_of c) flag (S (best c b a)) a f = Some (b, f') /\
               ff_ty f' = ff_ty f /\ ff_src f' = ff_src f /\ ff_dst f' = ff_dst f /\ ff_rest f' = ff_rest f /\ ff_sb f' = [].
  Proof.
    intros Hp Hrt Ha Hab Hknows Hsrc Hdst Hsb Hhp Httl.
    destruct (preach_inv c Hp) as [Hwf Hinv].
    apply (converged_delivery (node_of c) (rlink_of c) flag (best c b) b (fun r => In r nodes)); try assumption.
    - intros r. reflexivity.
    - intros r p l Hl. unfold rlink_of, link_by_peer in Hl. apply find_some in Hl. destruct Hl as [_ Hl]. apply N.eqb_eq in Hl. exact Hl.
    - intros r Hr Hne. exact (mesh_progress c b Hwf Hinv Hknows r Hr Hne).
    - intros r Hlt E. subst r. lia.
  Qed.

  (* at quiescence of a connected mesh in which b has announced, "every router knows a route to b"
     is C09's reach theorem: the two properties compose *)
  Corollary quiescent_mesh_delivers c b a f flag :
    preach c -> c_flight c = [] -> connected nodes adj -> (exists id, In (id, b) (c_anns c)) ->
    routable b = true -> In a nodes -> In b nodes -> a <> b ->
    ff_src f = a -> ff_dst f = b -> ff_sb f = [] -> is_hop_ping (ff_ty f) = false ->
    N.of_nat (best c b a) < ff_ttl f ->
    exists f', deliver_from_origin (node_of c) (rlink_of c) flag (S (best c b a)) a f = Some (b, f') /\
               ff_ty f' = ff_ty f /\ ff_src f' = ff_src f /\ ff_dst f' = ff_dst f /\ ff_rest f' = ff_rest f /\ ff_sb f' = [].
  Proof.
    intros Hp Hq Hconn Hann Hrt Ha Hb Hab. apply gossip_mesh_delivers; try assumption.
    intros r Hr Hne. exact (mesh_reach nodes adj cfg lab lat nodes_small adj_irrefl c b r (preach_creach c Hp) Hq Hconn Hann Hb Hr Hne).
  Qed.
  (* meshes of up to 31 routers: the TTL of an originated frame (32) always suffices *)
  Corollary default_ttl_suffices c b a f flag :
    (length nodes <= 31)%nat ->
    preach c -> routable b = true -> In a nodes -> a <> b ->
    (forall r, In r nodes -> r <> b -> knows (c_tbl c r) b) ->
    ff_src f = a -> ff_dst f = b -> ff_sb f = [] -> is_hop_ping (ff_ty f) = false ->
    ff_ttl f = Gen.frame_default_ttl ->
    exists f', deliver_from_origin (node_of c) (rlink_of c) flag (S (best c b a)) a f = Some (b, f') /\
               ff_ty f' = ff_ty f /\ ff_src f' = ff_src f /\ ff_dst f' = ff_dst f /\ ff_rest f' = ff_rest f /\ ff_sb f' = [].
  Proof.
    intros Hn Hp Hrt Ha Hab Hknows Hsrc Hdst Hsb Hhp Httl. apply gossip_mesh_delivers; try assumption.
    rewrite Httl. pose proof (best_bounded c b a Hp). change Gen.frame_default_ttl with 32. lia.
  Qed.
End Composition.

(* ---------- non-vacuity: two routers with routable addresses; b announces, a handles ---------- *)
Definition gx_a : N := 253 * 2 ^ 120 + 1.
Definition gx_b : N := 253 * 2 ^ 120 + 2.
Definition gx_nodes : list N := [gx_a; gx_b].
Definition gx_c0 : cnet := mkC (fun _ => []) [] [] [] [] [].
Definition gx_m : cmsg := mkCm 9 (mkAnn gx_b [] 5 false 0%Z 0 true) gx_b gx_a.
Definition gx_c1 : cnet := mkC (fun _ => []) [gx_m] [] [abs gx_m] [] [(9, gx_b)].

Example gossip_delivers_nonvacuous :
  exists c, preach gx_nodes ex_adj ex_cfgs ex_lab ex_lat c /\ routable gx_b = true /\
            (forall r, In r gx_nodes -> r <> gx_b -> knows (c_tbl c r) gx_b) /\
            N.of_nat (best c gx_b gx_a) < 32 /\
            deliver_from_origin (node_of gx_nodes ex_adj ex_lab ex_lat c) (rlink_of gx_nodes ex_adj ex_lab ex_lat c) (fun _ _ => 0)
              (S (best c gx_b gx_a)) gx_a (mkFF 32 0 Gen.mt_router_ping gx_a gx_b [] 77) = Some (gx_b, mkFF 31 0 Gen.mt_router_ping gx_a gx_b [] 77).
Proof.
  assert (R0' : preach gx_nodes ex_adj ex_cfgs ex_lab ex_lat gx_c0).
  { apply preach0.
    - unfold init_ok, gx_c0. cbn [c_flight c_learned c_hist c_deliv c_anns c_tbl].
      split; [reflexivity|]. split; [reflexivity|]. split; [reflexivity|]. split; [reflexivity|]. split; [reflexivity|].
      split; [intros r; split; [apply SSorted_nil|intros e []]|intros r o; apply Nat.le_0_l].
    - intros r e []. }
  assert (R1 : preach gx_nodes ex_adj ex_cfgs ex_lab ex_lat gx_c1).
  { eapply preachS; [exact R0'|].
    exact (CAnnounce gx_nodes ex_adj ex_cfgs ex_lab ex_lat gx_c0 9 gx_b 5 0%Z 0 (or_intror (or_introl eq_refl)) (fun o' H => H)). }
  destruct (GossipNet.deliver gx_nodes ex_adj ex_cfgs ex_lab ex_lat 1000 [] gx_a gx_m) as [[[t' added] fw]|] eqn:Hd; [|vm_compute in Hd; discriminate].
  pose proof Hd as Hd'. vm_compute in Hd'. inversion Hd'; subst t' added fw.
  eexists. split; [|split; [|split; [|split]]].
  - eapply preachS; [exact R1|].
    eapply (CHandled gx_nodes ex_adj ex_cfgs ex_lab ex_lat gx_c1 [] gx_m [] 1000); [reflexivity| | |exact Hd].
    + intros e. vm_compute. discriminate.
    + unfold admissible. intros rp Hrp. vm_compute in Hrp. inversion Hrp; subst rp. vm_compute. lia.
  - vm_compute. reflexivity.
  - intros r [<-|[<-|[]]] Hne; [|contradiction]. cbn [c_tbl]. unfold upd, gx_m, cm_to. rewrite N.eqb_refl. eexists. split; [left; reflexivity|reflexivity].
  - vm_compute. reflexivity.
  - vm_compute. reflexivity.
Qed.
