(* ForwardCorr.v — correspondence for C10 (no proofs). *)
From Verif Require Import Prelude SeqCorr SwitchLabel Table TableCorr Control Forward.

Definition ff_eqb (a b : ff) : bool :=
  (ff_ttl a =? ff_ttl b) && (ff_flow a =? ff_flow b) && (ff_ty a =? ff_ty b) && (ff_src a =? ff_src b) &&
  (ff_dst a =? ff_dst b) && list_eqb N.eqb (ff_sb a) (ff_sb b) && (ff_rest a =? ff_rest b).

(* router (address, links, table), originated here?, receive link, its flow flag, the frame,
   observed: kind (0 = neither sent nor handled, 1 = handled by this router, 2 = sent, 3 = panic),
   peer it was sent to, the frame as it left *)
Definition c10_case := (node * bool * option lnk * N * ff * (N * N * ff))%type.
Definition c10_ok (c : c10_case) : bool :=
  let '(nd, orig, recv, flag, f, (kind, peer, g)) := c in
  match (if orig then route_frame nd f None 0 else switch_handle nd f recv flag) with
  | OSend p f' => (kind =? 2) && (p =? peer) && ff_eqb f' g
  | OHandle _ => kind =? 1
  | ODrop _ => kind =? 0
  | OPanic => kind =? 3
  end.
