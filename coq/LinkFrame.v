(* LinkFrame.v — executable model of the link layer after the handshake
   (peering/link_frame.go: LinkFrame.Seal/Unseal; peering/link.go: readLengthAndData, readFrame,
   reader).  A link frame on the wire is
     len16 | version | recv rate | seq32 | ack32 | AEAD(inner frame) | tag16
   with the 12 header bytes as nonce.  The AEAD is idealised: a chunk opens iff it is,
   byte for byte, a link frame the peer sealed ([issued]); then the replay window (Seq.v)
   decides.  The reader closes after 100 consecutive errors. *)
From Verif Require Import Prelude Seq.

Definition lf_offset : nat := 12.
Definition lf_overhead : nat := 16.

Definition seq_of (chunk : list N) : N := be_decode (firstn 4 (skipn 4 chunk)).
Definition inner_of (chunk : list N) : list N := firstn (length chunk - lf_offset - lf_overhead) (skipn lf_offset chunk).

(* issued: what the peer sealed, as (link frame on the wire, inner frame it carries) *)
Fixpoint chunk_lookup (c : list N) (issued : list (list N * list N)) : option (list N) :=
  match issued with
  | [] => None
  | (w, inner) :: t => if bytes_eqb c w then Some inner else chunk_lookup c t
  end.

(* LinkFrame.Unseal on one chunk: Err for a chunk that is too short or does not open or is a
   replay; never a panic *)
Definition lf_unseal (issued : list (list N * list N)) (w : sh) (chunk : list N) : sh * res (list N) :=
  if Nat.ltb (length chunk) (lf_offset + lf_overhead) then (w, Err 1)             (* too small *)
  else match chunk_lookup chunk issued with
  | None => (w, Err 2)                                                           (* does not authenticate *)
  | Some inner =>
    let '(w', ok) := check w (seq_of chunk) in
    if ok then (w', Ok inner) else (w', Err 3)                                   (* replay *)
  end.

(* the function on the pinned tree: a chunk of 4..11 bytes was sliced [12:len] *)
Definition lf_unseal_pinned (issued : list (list N * list N)) (w : sh) (chunk : list N) : sh * res (list N) :=
  if Nat.ltb (length chunk) lf_offset then (w, Panic)
  else match chunk_lookup chunk issued with
  | None => (w, Err 2)
  | Some inner =>
    let '(w', ok) := check_pinned w (seq_of chunk) in
    if ok then (w', Ok inner) else (w', Err 3)
  end.

Inductive event := Deliver (f : list N) | Bad | Closed | Blocked.

(* the reader loop over a finite prefix of the byte stream; [errs] = consecutive errors so far *)
Fixpoint read_stream (issued : list (list N * list N)) (w : sh) (errs : nat) (wire : list N) (fuel : nat) : list event :=
  match fuel with
  | O => []
  | S f =>
    match wire with
    | [] => [Blocked]
    | [_] => [Blocked]
    | a :: b :: rest =>
      let L := N.to_nat (a * 256 + b) in
      if Nat.leb L 3 then
        (* invalid data length: only the two length bytes are consumed *)
        if Nat.leb 99 errs then [Bad; Closed] else Bad :: read_stream issued w (S errs) rest f
      else if Nat.ltb (length wire) L then [Blocked]                              (* waits for more bytes *)
      else
        let chunk := firstn L wire in
        let '(w', r) := lf_unseal issued w chunk in
        match r with
        | Ok inner => Deliver inner :: read_stream issued w' 0 (skipn L wire) f
        | _ => if Nat.leb 99 errs then [Bad; Closed] else Bad :: read_stream issued w' (S errs) (skipn L wire) f
        end
    end
  end.

Definition delivered_of (evs : list event) : list (list N) :=
  flat_map (fun e => match e with Deliver f => [f] | _ => [] end) evs.
