(* C05 — link layer after the handshake.  Property theorems only; proofs in LinkFrameProofs.v.
   Partial: the theorems cover the reader's logic on every byte stream under an ideal AEAD;
   goroutine scheduling, socket behaviour and how long a close takes are observed only. *)
From Verif Require Import Prelude Gen Seq SeqProofs Session LinkFrame LinkFrameProofs Translated.

(* For every byte stream an attacker can put on the wire — any edit of the honest stream or
   arbitrary bytes — every frame the reader delivers is byte-identical to the inner frame of a
   link frame the peer sealed ([issued] pairs each sealed link frame with the frame it carries) ... *)
Theorem C05_delivered_sound : forall issued fuel w errs wire f,
  In f (delivered_of (read_stream issued w errs wire fuel)) ->
  exists chunk, In (chunk, f) issued.
Proof. exact delivered_sound. Qed.
Print Assumptions C05_delivered_sound.

(* ... and no sealed link frame is delivered a second time. *)
Theorem C05_no_second_copy : forall issued fuel errs wire,
  NoDup (accepted_seqs issued sh_init errs wire fuel).
Proof. exact no_second_copy. Qed.
Print Assumptions C05_no_second_copy.

(* Unsealing never crashes, whatever the chunk. *)
Theorem C05_lf_no_panic : forall issued w chunk, snd (lf_unseal issued w chunk) <> Panic.
Proof. exact lf_no_panic. Qed.
Print Assumptions C05_lf_no_panic.

(* The reader never accumulates more than 100 consecutive bad frames: it delivers again or
   closes the link. *)
Theorem C05_bad_run_bounded : forall issued fuel w errs wire best,
  (errs <= 99)%nat -> (best <= 100)%nat ->
  (max_bad_run (read_stream issued w errs wire fuel) errs best <= 100)%nat.
Proof. exact bad_run_bounded. Qed.
Print Assumptions C05_bad_run_bounded.

(* Layout: a link frame is header(12) ++ encrypted inner frame ++ tag(16); nothing of the inner
   frame lies outside the encrypted range. *)
Theorem C05_wire_opaque : forall chunk, (lf_offset + lf_overhead <= length chunk)%nat ->
  chunk = firstn lf_offset chunk ++ firstn (length (inner_of chunk)) (skipn lf_offset chunk) ++ skipn (length chunk - lf_overhead) chunk /\
  length (inner_of chunk) = (length chunk - lf_offset - lf_overhead)%nat.
Proof. exact wire_opaque. Qed.
Print Assumptions C05_wire_opaque.

(* ---------- the translated source (Translated.v) ----------
   LinkFrame.SequenceNum / SetSequenceNum are translated from peering/link_frame.go on every run:
   the sequence number is the big-endian value of bytes 4..7, which is where the model reads it,
   and the getter inverts the setter. *)
Theorem C05_source_link_seq_is_model : forall l0 l1 v r s0 s1 s2 s3 rest,
  seq_of (l0 :: l1 :: v :: r :: s0 :: s1 :: s2 :: s3 :: rest) = Gen.go_LinkFrame_SequenceNum s0 s1 s2 s3.
Proof. exact go_link_seq_is_model. Qed.
Print Assumptions C05_source_link_seq_is_model.

Theorem C05_source_link_seq_roundtrip : forall a b c d n, n < 2 ^ 32 ->
  let '(a', b', c', d') := Gen.go_LinkFrame_SetSequenceNum a b c d n in Gen.go_LinkFrame_SequenceNum a' b' c' d' = n.
Proof. exact go_link_seq_roundtrip. Qed.
Print Assumptions C05_source_link_seq_roundtrip.

(* ---------- finding D23: an injected frame near the sequence wrap ---------- *)
(* The property's last clause for link frames ("intact later frames keep arriving or the link is
   closed") is FALSE of the faithful model once the receiver's regular window is within 255 of the
   32-bit wrap: In() rolls the incoming key over on the sequence number of a frame that has not been
   authenticated yet.  One injected frame with a small sequence number (it fails authentication and
   is dropped, as it must be) moves the receiver to the next key epoch; the sender's next intact
   frames are still sealed under the old one and are rejected until the sender wraps as well (up
   to 255 frames; on a real link the reader closes after 100 consecutive failures).  Without the
   injected frame the same intact frame is accepted.  Epoch 999 stands for "sealed under no key of
   this session".  Replayed on the real link by ./check C05 (KNOWN-FINDING, see known_findings.json
   and DESIGN 0.3, D23). *)
Theorem C05_forged_rollover_refuted :
  let e := mkEp (mkSq 4294967042 0 0) sq_zero 0 0 in          (* receiver: highest = 0xFFFFFF02, epoch 0 *)
  let intact := 4294967043 in                                   (* the sender's next frame, epoch 0 *)
  snd (unseal_at e 0 intact false) = true /\
  snd (unseal_at e 999 5 false) = false /\
  snd (unseal_at (fst (unseal_at e 999 5 false)) 0 intact false) = false.
Proof. vm_compute. repeat split; reflexivity. Qed.
Print Assumptions C05_forged_rollover_refuted.
