(* C20 — relay-only routers start, run and stop cleanly.  Property theorems only; proofs in
   GroupProofs.v.  The theorems cover the module group's start/stop logic for every number of
   modules and every combination of module behaviours; that the real modules' workers come up,
   exit on cancellation and release their sockets is runtime behaviour the harness observes. *)
From Verif Require Import Prelude Gen Group GroupProofs.

Theorem C20_failed_start_leaves_nothing : forall mods,
  snd (g_start mods) = false -> running (fst (g_start mods)) [] = [].
Proof. exact failed_start_leaves_nothing. Qed.
Print Assumptions C20_failed_start_leaves_nothing.

Theorem C20_start_then_stop : forall mods,
  snd (g_start mods) = true ->
  fst (g_start mods) = map CStart (seq 0 (length mods)) /\
  fst (g_stop mods) = map CStop (rev (seq 0 (length mods))) /\
  running (fst (g_start mods) ++ fst (g_stop mods)) [] = [].
Proof. exact start_then_stop. Qed.
Print Assumptions C20_start_then_stop.

Theorem C20_stop_status : forall mods n,
  snd (stop_from mods n) = forallb (fun i => let m := nth i mods (mkMb true true true) in stop_ok m && workers_exit m) (seq 0 n).
Proof. exact stop_from_ok. Qed.
Print Assumptions C20_stop_status.

Example C20_nonvacuous :
  g_start [mkMb true true true; mkMb true true true; mkMb false true true; mkMb true true true]
  = ([CStart 0; CStart 1; CStart 2; CStop 2; CStop 1; CStop 0], false).
Proof. reflexivity. Qed.

(* ---------- stopping cannot hang on a self-deadlock (go/ast obligation on the source under test) ---------- *)
(* [workers_exit] and [stop_ok] above are per-module behaviours the harness observes on the real
   modules.  One way for them to be false that no finite run reliably shows: a method that holds
   one of its receiver's mutexes calls a method that takes the same mutex again (a second RLock of
   an RWMutex blocks for good once a writer waits in between; Stop and every worker needing the
   lock then hang).  Gen.no_reentrant_locks is computed over the whole peering, state, router, m,
   storage, switchr, frame, api/dns and mgr packages on every run. *)
Theorem C20_no_self_deadlock : Gen.no_reentrant_locks = true.
Proof. reflexivity. Qed.
Print Assumptions C20_no_self_deadlock.

(* ---------- lock discipline of the operations the model treats as atomic (go/ast obligation on the source under test) ---------- *)
(* The module group's context handling and the task scheduler (6 methods of package mgr) and the
   link / listener registries that Stop walks (15 methods of package peering) run as one critical
   section each. *)
Theorem C20_lock_discipline : Gen.lock_discipline_mgr = true /\ Gen.lock_discipline_peering = true.
Proof. repeat split; reflexivity. Qed.
Print Assumptions C20_lock_discipline.

(* ---------- every started worker is seen by the stop (Workers.v; defect D24) ---------- *)
From Verif Require Import Workers.
(* Go counts the worker and then spawns its goroutine; the goroutine is scheduled whenever the
   runtime likes.  Under every interleaving of starts, schedulings and finishes the counter equals
   the number of workers started and not finished, so WaitForWorkers' "done" (counter zero) means
   that none is left — not even one whose goroutine has not run yet. *)
Theorem C20_stop_sees_every_started_worker : forall evs,
  let s := fold_left wstep evs w0 in
  w_count s = unfinished s /\ (wait_done s = true -> unfinished s = O).
Proof. exact wait_done_means_none_left. Qed.
Print Assumptions C20_stop_sees_every_started_worker.

(* the source under test has that order: every go statement of mgr/worker.go is preceded by
   workerStart in its function, and the function it runs does not count again (go/ast, every run) *)
Theorem C20_source_counts_before_spawning : Gen.worker_counted_before_spawn = true.
Proof. reflexivity. Qed.
Print Assumptions C20_source_counts_before_spawning.

(* the order the pinned tree had: after the single event Go the stop finds the counter at zero
   while one worker is about to run *)
Theorem C20_pinned_accounting_refuted :
  exists evs, let s := fold_left wstep_pinned evs w0 in wait_done s = true /\ unfinished s = 1%nat.
Proof. exact pinned_wait_done_refuted. Qed.
