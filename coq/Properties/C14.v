(* C14 — end-to-end key setup never ends in a silent key mismatch.  Property theorems only;
   proofs in HelloKxProofs.v.  The model's state space is finite (identifiers are reused once
   unreferenced), so the theorems are proved by computing the closure of the initial state
   inside the kernel and lifting it to executions of ANY length by induction. *)
From Verif Require Import Prelude Gen HelloKx HelloKxProofs.

(* For every interleaving of any length of: either router (or both at once) starting a setup;
   requests and responses delivered in any order the receivers accept, or lost; duplicates
   (rejected like older frames); "no encryption keys" errors; either router losing its keys and hello
   state (restart, idle session evicted), hello states expiring and setups being retried at
   points where no setup frame is in flight — whenever no setup frame is in
   flight, the routers do not both consider encryption established with different keys. *)
Theorem C14_kx_safe : forall s, reach false s -> safe s = true.
Proof. exact kx_safe. Qed.
Print Assumptions C14_kx_safe.

Theorem C14_kx_agreement : forall s, reach false s -> quiescent s = true ->
  established (lo s) = true -> established (hi s) = true -> agree s = true.
Proof. exact kx_agreement. Qed.
Print Assumptions C14_kx_agreement.

(* The full statement — hello states may also expire while setup frames are in flight (a setup
   frame delayed beyond the 30 s lifetime of the sender's peer's hello state) — is FALSE of the
   model, and of the code (known finding D19, replayed on real routers by the harness). *)
Theorem C14_kx_expiry_refuted : exists s, reach true s /\ safe s = false /\ quiescent s = true.
Proof. exact kx_expiry_refuted. Qed.
Print Assumptions C14_kx_expiry_refuted.

(* non-vacuity: the concurrent case the tie-break is for ends with both routers established on
   the key of the lower router's request *)
Example C14_nonvacuous :
  let s1 := nth 0 (start init true) init in
  let s2 := nth 0 (start s1 false) s1 in
  let s3 := nth 0 (deliver s2 false 0) s2 in      (* lo refuses hi's request *)
  let s4 := nth 0 (deliver s3 true 0) s3 in       (* hi abandons its own and serves lo's *)
  let s5 := nth 0 (deliver s4 false 0) s4 in      (* lo completes *)
  quiescent s5 = true /\ established (lo s5) = true /\ established (hi s5) = true /\ agree s5 = true /\
  st_mem s5 closure = true.
Proof. vm_compute. repeat split; reflexivity. Qed.

(* ---------- one hello in flight per destination (go/ast obligation on the source under test) ---------- *)
(* The model's [start] event is atomic: a router checks that it has no hello in flight for the
   destination, sends the request and records the pending state in one step.  The router runs one
   tun worker per CPU, and two of them can have packets for the same not-yet-keyed destination.
   [start] is one step because HelloPingHandler.Send does all three under sendLock, held for its
   whole body (computed from router/ping_hello.go on every run). *)
Theorem C14_start_is_atomic : Gen.hello_send_locked = true.
Proof. reflexivity. Qed.
Print Assumptions C14_start_is_atomic.
