(* C11 — routing table.  Property theorems only; proofs in TableProofs.v.
   Proved here: the removal, cleanup and added/not-added clauses, for every table content.
   The ordering clauses (sortedness under every operation sequence, exact best-first lookups,
   at most three non-peer routes per destination, the per-prefix bounds) are evaluated on every
   step of every real operation sequence through Table.table_inv_b and the lookup comparison
   in TableCorr.run_steps — validated, and proved where TableOrder.v says so. *)
From Verif Require Import Prelude SwitchLabel Table TableProofs.

(* 'added' means the route is now present ... *)
Theorem C11_added_present : forall cfg now t e0 t',
  add_route cfg now t e0 = Ok (t', true) -> exists e, In e t' /\ same_route e e0.
Proof. exact add_route_added. Qed.
Print Assumptions C11_added_present.

(* ... 'not added' (and every error) means the table is unchanged. *)
Theorem C11_not_added_unchanged : forall cfg now t e0 t',
  add_route cfg now t e0 = Ok (t', false) -> t' = t.
Proof. exact add_route_not_added. Qed.
Print Assumptions C11_not_added_unchanged.

Theorem C11_error_unchanged : forall cfg self now t e0 c,
  add_route cfg now t e0 = Err c -> tstep cfg self t (TAdd now e0) = t.
Proof. exact add_route_error_unchanged. Qed.
Print Assumptions C11_error_unchanged.

(* No route keeps a removed next hop; exactly the routes with that next hop are removed. *)
Theorem C11_remove_next_hop : forall t ip e,
  In e (remove_next_hop t ip) <-> In e t /\ e_nexthop e <> ip.
Proof. exact remove_next_hop_spec. Qed.
Print Assumptions C11_remove_next_hop.

(* No route keeps a disconnected router as destination, next hop or on its path; exactly those
   routes are removed. *)
Theorem C11_remove_disconnected : forall t router e,
  In e (remove_disconnected t router []) <->
  In e t /\ e_dst e <> router /\ e_nexthop e <> router /\ ~ In router (map h_router (e_path e)).
Proof. exact remove_disconnected_all_spec. Qed.
Print Assumptions C11_remove_disconnected.

(* No expired route survives a cleanup; a cleanup only removes; it never removes a peer route. *)
Theorem C11_clean_no_expired : forall cfg self now t e,
  In e (clean cfg self now t) -> e_source e = src_peer \/ (now <= e_expires e)%Z.
Proof. exact clean_no_expired. Qed.
Print Assumptions C11_clean_no_expired.

Theorem C11_clean_only_removes : forall cfg self now t e, In e (clean cfg self now t) -> In e t.
Proof. exact clean_sub. Qed.
Print Assumptions C11_clean_only_removes.

Theorem C11_clean_keeps_peers : forall cfg self now t e,
  In e t -> e_source e = src_peer -> In e (clean cfg self now t).
Proof. exact clean_keeps_peers. Qed.
Print Assumptions C11_clean_keeps_peers.
