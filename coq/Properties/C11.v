(* C11 — routing table.  Property theorems only; proofs in TableProofs.v and TableSorted.v.
   Proved: the removal, cleanup and added/not-added clauses for every table content; sortedness
   under every operation sequence; exact best-first lookups on every reachable table.
   TableBounds.v: at most three non-peer and one direct-peer route per destination in every
   reachable table, and direct-peer routes disappear only through a removal naming them.
   TablePrefix.v: gossip routes per routing prefix stay within 3*(2*limit+1) in every reachable
   table (after fix D21; the function as it stood is refuted).
   TableClean.v: within the limit after a cleanup.  Every clause of the property is now a theorem
   (for system-producible routes and configurations whose routing bits are at least the base bits). *)
From Verif Require Import Prelude Gen SwitchLabel Table TableProofs TableSorted TableBounds TablePrefix TableClean.

(* 'added' means the route is now present ... *)
Theorem C11_added_present : forall cfg now t e0 t',
  add_route cfg now t e0 = Ok (t', true) -> exists e, In e t' /\ same_route e e0.
Proof. exact add_route_added. Qed.
Print Assumptions C11_added_present.

(* ... 'not added' (and every error) means the table is unchanged. *)
Theorem C11_not_added_unchanged : forall cfg now t e0 t',
  add_route cfg now t e0 = Ok (t', false) -> t' = t.
Proof. exact add_route_not_added. Qed.
Print Assumptions C11_not_added_unchanged.

Theorem C11_error_unchanged : forall cfg self now t e0 c,
  add_route cfg now t e0 = Err c -> tstep cfg self t (TAdd now e0) = t.
Proof. exact add_route_error_unchanged. Qed.
Print Assumptions C11_error_unchanged.

(* No route keeps a removed next hop; exactly the routes with that next hop are removed. *)
Theorem C11_remove_next_hop : forall t ip e,
  In e (remove_next_hop t ip) <-> In e t /\ e_nexthop e <> ip.
Proof. exact remove_next_hop_spec. Qed.
Print Assumptions C11_remove_next_hop.

(* No route keeps a disconnected router as destination, next hop or on its path; exactly those
   routes are removed. *)
Theorem C11_remove_disconnected : forall t router e,
  In e (remove_disconnected t router []) <->
  In e t /\ e_dst e <> router /\ e_nexthop e <> router /\ ~ In router (map h_router (e_path e)).
Proof. exact remove_disconnected_all_spec. Qed.
Print Assumptions C11_remove_disconnected.

(* No expired route survives a cleanup; a cleanup only removes; it never removes a peer route. *)
Theorem C11_clean_no_expired : forall cfg self now t e,
  In e (clean cfg self now t) -> e_source e = src_peer \/ (now <= e_expires e)%Z.
Proof. exact clean_no_expired. Qed.
Print Assumptions C11_clean_no_expired.

Theorem C11_clean_only_removes : forall cfg self now t e, In e (clean cfg self now t) -> In e t.
Proof. exact clean_sub. Qed.
Print Assumptions C11_clean_only_removes.

Theorem C11_clean_keeps_peers : forall cfg self now t e,
  In e t -> e_source e = src_peer -> In e (clean cfg self now t).
Proof. exact clean_keeps_peers. Qed.
Print Assumptions C11_clean_keeps_peers.

(* ---------- sortedness and lookups (TableSorted.v) ---------- *)
(* After ANY sequence of additions (paths of at most 255 hops: what BuildBlocks can carry and far
   more than an announcement's 101), next-hop removals, disconnect removals and cleanups, from the
   empty table: the table is sorted by (destination, hops, delay, relays) and every stored entry
   carries the hop count of its own path. *)
Theorem C11_reachable_sorted : forall cfg self ops,
  Forall (fun o => match o with TAdd _ e => (length (e_path e) <= 255)%nat | _ => True end) ops ->
  sorted (fold_left (tstep cfg self) ops []) /\ tpwf (fold_left (tstep cfg self) ops []).
Proof. exact reachable_sorted. Qed.
Print Assumptions C11_reachable_sorted.

(* On such a table a lookup for an address that has at least one route returns a route to exactly
   that address, flagged as destination, and it is the first in the table order among all routes
   to that address: fewest hops, then lowest delay (a direct-peer route has one hop and sorts
   first). *)
Theorem C11_lookup_exact_best : forall t d,
  sorted t -> tpwf t -> (exists x, In x t /\ e_dst x = d) ->
  exists e, lookup_nearest t d = Some (e, true) /\ In e t /\ e_dst e = d /\
            forall y, In y t -> e_dst y = d -> sle e y.
Proof. exact lookup_exact_best. Qed.
Print Assumptions C11_lookup_exact_best.

(* Binary search returns the insertion point: adding keeps the table sorted. *)
Theorem C11_add_route_sorted : forall cfg now t e0 t' b,
  sorted t -> tpwf t -> (length (e_path e0) <= 255)%nat ->
  add_route cfg now t e0 = Ok (t', b) -> sorted t' /\ tpwf t'.
Proof. exact add_route_sorted. Qed.
Print Assumptions C11_add_route_sorted.

(* 'not added': the destination already has a route, or it is a new gossip destination refused
   because its routing prefix is over the limit. *)
Theorem C11_not_added_has_route_or_full : forall cfg now t e0 t',
  sorted t -> tpwf t -> add_route cfg now t e0 = Ok (t', false) ->
  (exists x, In x t /\ e_dst x = e_dst e0) \/
  (forall x, In x t -> e_dst x <> e_dst e0) /\ e_source e0 = src_gossip.
Proof. exact not_added_has_route_or_full. Qed.
Print Assumptions C11_not_added_has_route_or_full.

(* ---------- per-destination bounds and direct-peer routes (TableBounds.v) ----------
   Operations the system can issue: a direct-peer route has a path of at most two hops (AddLink:
   none; announcement without hop records: [self; peer]), every other route at least three
   (an announcement with k >= 1 hop records gives k + 2); paths of at most 255 hops. *)
Theorem C11_reachable_bounds : forall cfg self ops, Forall op_ok ops ->
  forall d, (count_dst_nonpeer (fold_left (tstep cfg self) ops []) d <= 3)%nat /\
            (count_dst_peer (fold_left (tstep cfg self) ops []) d <= 1)%nat.
Proof. exact reachable_bounds. Qed.
Print Assumptions C11_reachable_bounds.

(* The whole invariant (sorted, hop counts consistent, system-producible shapes, bounds) holds in
   every reachable table ... *)
Theorem C11_reachable_inv : forall cfg self ops t, tinv t -> Forall op_ok ops -> tinv (fold_left (tstep cfg self) ops t).
Proof. exact history_inv. Qed.
Print Assumptions C11_reachable_inv.

(* ... and on such a table a step removes the direct-peer route to p only if it is a next-hop
   removal naming that route's next hop, or a disconnect removal; additions (including a better
   route replacing the third one, and re-announcements replacing an equal route) and cleanups never
   evict it. *)
Theorem C11_peers_persist : forall cfg self t o p,
  tinv t -> op_ok o -> has_peer t p ->
  has_peer (tstep cfg self t o) p \/
  (exists ip, o = TRemoveNextHop ip /\ exists x, In x t /\ e_source x = src_peer /\ e_dst x = p /\ e_nexthop x = ip) \/
  (exists r disc, o = TRemoveDisconnected r disc).
Proof. exact peers_persist. Qed.
Print Assumptions C11_peers_persist.

Theorem C11_peers_persist_disconnect : forall t router p,
  has_peer t p ->
  has_peer (remove_disconnected t router []) p \/
  exists x, In x t /\ e_source x = src_peer /\ e_dst x = p /\
            (p = router \/ e_nexthop x = router \/ In router (map h_router (e_path x))).
Proof. exact peers_persist_disconnect. Qed.
Print Assumptions C11_peers_persist_disconnect.

(* ---------- the per-routing-prefix bound (TablePrefix.v) ----------
   Configurations: every routable prefix has 0 < base bits <= routing bits <= 128 (cfg_ok; what
   GetRoutablePrefixesFor and the default produce — evaluated on every configuration the harness
   uses).  In every table reachable by system-producible operations, for every gossip route e the
   gossip routes sharing e's routing prefix number at most 3*(2*L+1), L the limit configured for
   e's destination (the same for every destination of that routing prefix: same_prefix_same_limit). *)
Theorem C11_reachable_prefix_bound : forall cfg self ops, cfg_ok cfg = true -> Forall op_ok ops ->
  let t := fold_left (tstep cfg self) ops [] in
  forall e, In e t -> e_source e = src_gossip ->
    (cnt (in_gp (e_paddr e) (e_pbits e)) t <= 3 * (2 * lim_of cfg (e_dst e) + 1))%nat.
Proof. exact reachable_prefix_bound. Qed.
Print Assumptions C11_reachable_prefix_bound.

(* AddRoute as it stood before fix D21 violates the bound: five direct peers in one routing prefix
   with limit 1 and two gossip routes to each give 10 > 9 (replayed on the real table: finding D21). *)
Theorem C11_prefix_bound_pinned_refuted : exists cfg ops, cfg_ok cfg = true /\ Forall op_ok ops /\
  exists e, In e (fold_left (tstep_pinned cfg 1) ops []) /\ e_source e = src_gossip /\
    (3 * (2 * lim_of cfg (e_dst e) + 1) < cnt (in_gp (e_paddr e) (e_pbits e)) (fold_left (tstep_pinned cfg 1) ops []))%nat.
Proof. exact prefix_bound_pinned_refuted. Qed.
Print Assumptions C11_prefix_bound_pinned_refuted.

(* ---------- within the limit after a cleanup (TableClean.v) ---------- *)
Theorem C11_clean_within_limit : forall cfg self now t, cfg_ok cfg = true -> pinv cfg t ->
  forall e, In e (clean cfg self now t) -> e_source e = src_gossip ->
    (cnt (in_gp (e_paddr e) (e_pbits e)) (clean cfg self now t) <= lim_of cfg (e_dst e))%nat.
Proof. exact clean_within_limit. Qed.
Print Assumptions C11_clean_within_limit.

Theorem C11_reachable_clean_within_limit : forall cfg self ops now, cfg_ok cfg = true -> Forall op_ok ops ->
  let t := clean cfg self now (fold_left (tstep cfg self) ops []) in
  forall e, In e t -> e_source e = src_gossip ->
    (cnt (in_gp (e_paddr e) (e_pbits e)) t <= lim_of cfg (e_dst e))%nat.
Proof. exact reachable_clean_within_limit. Qed.
Print Assumptions C11_reachable_clean_within_limit.

(* ---------- the operations are atomic steps (go/ast obligation on the source under test) ---------- *)
(* The theorems above range over operation SEQUENCES.  Announcement handlers, link removal and the
   cleaning worker call the table concurrently; they produce one of these sequences because every
   mutating operation (AddRoute, RemoveNextHop, RemoveDisconnected, Clean) takes the table's write
   lock once, defers the unlock at once, does not touch the entries before, and contains no other
   lock call.  Gen.table_ops_serialised is computed from m/table.go on every run. *)
Theorem C11_operations_serialised : Gen.table_ops_serialised = true.
Proof. reflexivity. Qed.
Print Assumptions C11_operations_serialised.

(* ---------- lock discipline of the operations the model treats as atomic (go/ast obligation on the source under test) ---------- *)
(* Clean, RemoveNextHop, RemoveDisconnected and the three lookups lock the table first and defer the
   unlock (AddRoute locks after validating its argument: C11_operations_serialised). *)
Theorem C11_lock_discipline : Gen.lock_discipline_table = true.
Proof. repeat split; reflexivity. Qed.
Print Assumptions C11_lock_discipline.

(* ---------- the best route to a destination never gets worse through AddRoute (TableBest.v) ---------- *)
(* If the table holds a route to d with at most k hops, it still does after any successful
   AddRoute of a system-producible route (replacements inside a destination's section put an equal
   route or a better one in place).  Used by C10_gossip_mesh_delivers. *)
From Verif Require Import TableBest.
Theorem C11_add_route_never_worsens_best : forall cfg now t e0 t' b d k,
  sorted t -> tpwf t -> tswf t ->
  (e_source e0 = src_peer -> (length (e_path e0) <= 2)%nat) ->
  (e_source e0 <> src_peer -> (3 <= length (e_path e0) <= 255)%nat) ->
  add_route cfg now t e0 = Ok (t', b) -> reach_le t d k -> reach_le t' d k.
Proof. exact add_route_best_mono. Qed.
Print Assumptions C11_add_route_never_worsens_best.

(* ---------- the translated source of CalculateTotals (TranslatedTotals.v) ---------- *)
(* Gen.go_SwitchPath_CalculateTotals is regenerated from m/switch_label.go on every run: for every
   path of up to 255 hops with 16-bit hop delays it computes the model's hop count (1 for paths of
   at most one hop, hops-1 capped at 254) and delay (every hop at least 5, the sum kept when it is
   0, saturated at 65534) — in particular the sum does not wrap before it is saturated. *)
From Verif Require Import TranslatedTotals.
Theorem C11_source_calculate_totals_is_model : forall p old_delay old_hops,
  (length p <= 255)%nat -> (forall h, In h p -> h_delay h < 65536) ->
  Gen.go_SwitchPath_CalculateTotals (map hop_triple p) old_delay old_hops = (calc_tdelay p old_delay, calc_thops p).
Proof. exact go_calc_totals_is_model. Qed.
Print Assumptions C11_source_calculate_totals_is_model.

Theorem C11_source_totals_translated : Gen.go_SwitchPath_CalculateTotals_translated = true.
Proof. exact totals_translated. Qed.
