(* C16 — link registry, switch labels and peer routes stay consistent.  Property theorems only;
   proofs in RegistryProofs.v. *)
From Verif Require Import Prelude Gen Registry RegistryProofs.

(* Tie to the code: AddLink and RemoveLink hold the registry lock for their whole body, so that
   a history is a sequence of these operations (go/ast on the source, regenerated every run). *)
Theorem C16_registry_ops_atomic : Gen.peering_addlink_locked = true /\ Gen.peering_removelink_locked = true.
Proof. split; reflexivity. Qed.

(* Every history of link registrations (duplicates to the same peer and label clashes included),
   removals (of registered and of refused links) and learned routes keeps: every registered link
   is filed under its own peer address and its own non-zero label, both maps hold the same links,
   keys are unique, the direct-peer route exists for exactly the registered peers, and no route
   has a next hop without a registered link. *)
Theorem C16_inv_history : forall h r, inv r -> all_ok r h -> inv (fold_left step h r).
Proof. exact inv_history. Qed.
Print Assumptions C16_inv_history.

Theorem C16_inv_init : inv init.
Proof. exact inv_init. Qed.

Theorem C16_inv_found : forall r l, inv r -> In l (map snd (by_peer r)) ->
  lookup (l_peer l) (by_peer r) = Some l /\ lookup (l_label l) (by_label r) = Some l /\ l_label l <> 0.
Proof. exact inv_found. Qed.
Print Assumptions C16_inv_found.

(* non-vacuity: the simultaneous cross-connect at the registry level — a second link to the same
   peer is refused, and removing the refused link leaves the first one and its route intact *)
Example C16_nonvacuous :
  let l1 := mkLink 1 77 5 in let l2 := mkLink 2 77 9 in
  let r := fold_left step [OAdd l1 true; OAdd l2 true; ORemove l2] init in
  lookup 77 (by_peer r) = Some l1 /\ lookup 5 (by_label r) = Some l1 /\ lookup 9 (by_label r) = None /\
  routes r = [(77, 77, true)].
Proof. vm_compute. repeat split; reflexivity. Qed.

(* ---------- lock discipline of the operations the model treats as atomic (go/ast obligation on the source under test) ---------- *)
(* Every operation of the link registry the model takes as one step (AddLink, RemoveLink, the lookups by
   peer / label / remote host, GetLinks, LinkCnt, IsStub, the listener and protocol registries) locks
   its mutex first and defers the unlock: 15 methods, recomputed from peering/*.go on every run. *)
Theorem C16_lock_discipline : Gen.lock_discipline_peering = true.
Proof. repeat split; reflexivity. Qed.
Print Assumptions C16_lock_discipline.

(* Two links with one peer can be set up at the same time (simultaneous connect in both directions);
   both handshakes work on the router's one session for that peer.  Every method of the encryption
   session they call — the key exchange steps, the derivation of the link keys and the clean-up of
   the exchange keys (InitCleanup: defect fixed by 628f0f1, it wrote without the lock) — is one
   critical section under the session's lock: 22 methods of package state, recomputed on every run. *)
Theorem C16_sessions_of_concurrent_setups_locked : Gen.lock_discipline_state = true.
Proof. repeat split; reflexivity. Qed.
Print Assumptions C16_sessions_of_concurrent_setups_locked.

(* ... and no method that holds only a read lock writes shared state (defect D26, reported by the
   race detector in this property's thorough tier during two simultaneous link setups) *)
Theorem C16_read_locked_sections_do_not_write : Gen.read_locked_sections_do_not_write = true.
Proof. reflexivity. Qed.
Print Assumptions C16_read_locked_sections_do_not_write.
