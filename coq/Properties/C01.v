(* C01 — self-certifying addresses.  Property theorems only; proofs in AddressProofs.v.
   [H] is the family of hash algorithms: H name = Some digest function, None for an unknown name. *)
From Verif Require Import Prelude Address AddressProofs.

(* Every combination of fields is either accepted or rejected with an error — never a crash —
   including unknown algorithm and key-type names and odd key sizes. *)
Theorem C01_verify_total : forall H a, verify_address H a <> Panic.
Proof. exact verify_total. Qed.
Print Assumptions C01_verify_total.

(* Accepted only if the address lies in fd00::/8 and equals the first 128 bits of the digest of
   the encoded key material (known algorithm, Ed25519 key of 32 bytes). *)
Theorem C01_verify_sound : forall H a, verify_address H a = Ok tt ->
  in_fd00 (a_ip a) = true /\ a_type a = ed25519_name /\ length (a_key a) = 32%nat /\
  exists h, H (a_hash a) = Some h /\ firstn 16 (h (digest_input (a_type a) (a_key a) (a_easing a))) = a_ip a.
Proof. exact verify_sound. Qed.
Print Assumptions C01_verify_sound.

(* The hashed input determines key type, key and easing (length-prefixed encoding). *)
Theorem C01_digest_input_inj : forall ty key e ty' key' e',
  N.of_nat (length ty) < 256 -> N.of_nat (length ty') < 256 -> N.of_nat (length key) < 65536 -> N.of_nat (length key') < 65536 ->
  e < 18446744073709551616 -> e' < 18446744073709551616 ->
  digest_input ty key e = digest_input ty' key' e' -> ty = ty' /\ key = key' /\ e = e'.
Proof. exact (digest_input_inj (fun _ => None)). Qed.
Print Assumptions C01_digest_input_inj.

(* Corrupting the address, or any of hash name / key type / key / easing, of a valid identity is
   rejected (the latter under the idealisation that digest prefixes of distinct
   (algorithm, input) pairs differ). *)
Theorem C01_corrupt_ip : forall H a a',
  verify_address H a = Ok tt -> a_ip a' <> a_ip a ->
  a_hash a' = a_hash a -> a_type a' = a_type a -> a_key a' = a_key a -> a_easing a' = a_easing a ->
  exists c, verify_address H a' = Err c.
Proof. exact corrupt_ip. Qed.
Print Assumptions C01_corrupt_ip.

Theorem C01_corrupt_material : forall H,
  (forall n n' h h' x x', H n = Some h -> H n' = Some h' -> (n, x) <> (n', x') -> firstn 16 (h x) <> firstn 16 (h' x')) ->
  forall a a',
  verify_address H a = Ok tt -> a_ip a' = a_ip a ->
  (a_hash a', a_type a', a_key a', a_easing a') <> (a_hash a, a_type a, a_key a, a_easing a) ->
  a_easing a < 18446744073709551616 -> a_easing a' < 18446744073709551616 ->
  exists c, verify_address H a' = Err c.
Proof. exact corrupt_material. Qed.
Print Assumptions C01_corrupt_material.

(* The entry points create the stored record / session only after a successful verification;
   a rejection leaves no trace. *)
Theorem C01_rejects_no_trace : forall H known a c, verify_address H a = Err c -> admit_identity H known a = Err c.
Proof. exact admit_rejects_no_trace. Qed.
Theorem C01_only_verified : forall H known a known', admit_identity H known a = Ok known' ->
  verify_address H a = Ok tt /\ known' = a_ip a :: known.
Proof. exact admit_only_verified. Qed.
Print Assumptions C01_rejects_no_trace. Print Assumptions C01_only_verified.

(* What the router believes about address -> key bindings: after any number of admissions and
   announcement hop chains (each parsed outermost first, stopping at the first rejection), every
   stored address is bound to an identity that carries that very address and verifies; a
   rejection changes nothing and an existing binding is never replaced. *)
Theorem C01_bindings_sound : forall H l st, store_sound H st -> store_sound H (fst (admit_chain H st l)).
Proof. exact admit_chain_sound. Qed.
Theorem C01_binding_rejected_unchanged : forall H st a c, verify_address H a = Err c -> admit_binding H st a = Err c.
Proof. exact admit_binding_rejects. Qed.
Theorem C01_binding_never_replaced : forall H st a st' ip b, admit_binding H st a = Ok st' ->
  lookup_binding st ip = Some b -> lookup_binding st' ip = Some b.
Proof. exact admit_binding_keeps. Qed.
Print Assumptions C01_bindings_sound. Print Assumptions C01_binding_rejected_unchanged. Print Assumptions C01_binding_never_replaced.

(* Every identity the generator returns passes the check, lies in a requested prefix and
   outside the internal and the ignored ranges. *)
Theorem C01_generator_sound : forall H h hname key acc ign fuel easing a,
  H hname = Some h -> length key = 32%nat ->
  try_key h hname key acc ign easing fuel = Some a ->
  verify_address H a = Ok tt /\
  existsb (fun p => prefix_has p (a_ip a)) acc = true /\
  prefix_has internal_prefix (a_ip a) = false /\
  existsb (fun p => prefix_has p (a_ip a)) ign = false.
Proof. exact generator_sound. Qed.
Print Assumptions C01_generator_sound.

(* The stored form's hex codec round-trips every byte string. *)
Theorem C01_hex_roundtrip : forall l, Forall (fun b => b < 256) l -> hex_decode (hex_encode l) = Some l.
Proof. exact hex_roundtrip. Qed.
Print Assumptions C01_hex_roundtrip.
