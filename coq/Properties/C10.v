(* C10 — unicast delivery, bounded forwarding, content preservation.  Property theorems only;
   proofs in ForwardProofs.v.  A frame is the record of the fields forwarding reads plus ff_rest,
   which stands for every byte outside TTL, flow flags and switch block. *)
From Verif Require Import TableSorted TableBest Gossip GossipRefine GossipNet GossipDelivers.
From Verif Require Import Prelude Gen SwitchLabel SwitchLabelProofs Table Control Forward ForwardProofs Translated Frame TranslatedDec.

(* Tie to the code: ReduceTTL(1) as tabulated from the compiled code over all 256 TTL values,
   the TTL of a freshly built frame, and the message types that are handled as hop pings. *)
Theorem C10_reduce_ttl_is_code : forall t, t < 256 -> reduce_ttl t = Gen.reduce_ttl_code t.
Proof.
  intros t Ht.
  assert (H : all_below (fun t => reduce_ttl t =? Gen.reduce_ttl_code t) 256 = true) by (vm_compute; reflexivity).
  apply N.eqb_eq. exact (all_below_spec _ _ H t Ht).
Qed.
Print Assumptions C10_reduce_ttl_is_code.

Theorem C10_default_ttl : Gen.frame_default_ttl = 32.
Proof. reflexivity. Qed.

(* Every forwarding step strictly decreases the TTL and leaves it at least one; message type,
   source, destination and every byte outside TTL, flow flags and switch block are unchanged;
   the flow flags only gain the receive link's flag; a frame without switch block stays without. *)
Theorem C10_forward_step : forall nd f recv flag q f',
  switch_handle nd f recv flag = OSend q f' ->
  ff_ttl f' + 1 = ff_ttl f /\ 1 <= ff_ttl f' /\
  ff_flow f' = N.lor (ff_flow f) flag /\ ff_ty f' = ff_ty f /\ ff_src f' = ff_src f /\ ff_dst f' = ff_dst f /\
  ff_rest f' = ff_rest f /\
  (ff_sb f = [] -> ff_sb f' = []).
Proof. exact forward_step. Qed.
Print Assumptions C10_forward_step.

(* The only operation forwarding performs on the switch block, NextRotateSwitchBlock, never
   touches a byte outside the block and keeps the block's length: this is what makes ff_rest
   (everything outside TTL, flow flags and switch block) a sound abstraction. *)
Theorem C10_rotate_confined : forall block extra ret next b' e',
  rotate block extra ret = Ok (next, b', e') -> e' = extra /\ length b' = length block.
Proof. exact rotate_confined. Qed.
Print Assumptions C10_rotate_confined.

(* Whatever the routing tables, link maps and switch blocks of whatever routers: a frame that
   arrives with TTL t crosses at most t - 1 further links; one a router originates with TTL t
   crosses at most t - 1 links (31 for the default 32); with TTL 0 or 1 it is never forwarded. *)
Theorem C10_crossings_bounded : forall net rlink flag fuel at_ from f,
  (crossings net rlink flag fuel at_ from f <= N.to_nat (ff_ttl f) - 1)%nat.
Proof. exact crossings_bounded. Qed.
Print Assumptions C10_crossings_bounded.

Theorem C10_crossings_from_origin_bounded : forall net rlink flag fuel a f,
  (crossings_from_origin net rlink flag fuel a f <= N.to_nat (ff_ttl f) - 1)%nat.
Proof. exact crossings_from_origin_bounded. Qed.
Print Assumptions C10_crossings_from_origin_bounded.

Theorem C10_ttl_exhausted_not_forwarded : forall net rlink flag at_ from f,
  ff_ttl f <= 1 -> forall p f', arrive net rlink flag at_ from f <> OSend p f'.
Proof. exact ttl_exhausted_not_forwarded. Qed.
Print Assumptions C10_ttl_exhausted_not_forwarded.

(* Whoever's handlers get a frame get the content that was sent, and are the destination (or it
   is a flooded hop ping). *)
Theorem C10_deliver_preserves : forall net rlink flag fuel at_ from f b f',
  deliver net rlink flag fuel at_ from f = Some (b, f') ->
  ff_ty f' = ff_ty f /\ ff_src f' = ff_src f /\ ff_dst f' = ff_dst f /\ ff_rest f' = ff_rest f /\
  (ff_sb f = [] -> ff_sb f' = []) /\
  (ff_dst f = n_self (net b) \/ is_hop_ping (ff_ty f) = true).
Proof. exact deliver_preserves. Qed.
Print Assumptions C10_deliver_preserves.

(* Converged mesh (every router of the mesh [dom] other than b looks up a next hop that is in
   the mesh, strictly closer to b, and to which it has a link): a frame router a originates for b
   with TTL above the distance is handed to b's handlers — deliver is a function, so to nobody
   else's — with its content. *)
Theorem C10_converged_delivery : forall net rlink flag rank b (dom : N -> Prop),
  (forall r, n_self (net r) = r) ->
  (forall r p l, rlink r p = Some l -> lnk_peer l = p) ->
  routable b = true ->
  (forall r, dom r -> r <> b ->
    exists e m l, lookup_nearest_route (n_table (net r)) b = Some (e, m) /\
                  link_by_peer (net r) (e_nexthop e) = Some l /\ lnk_peer l = e_nexthop e /\
                  dom (e_nexthop e) /\ (rank (e_nexthop e) < rank r)%nat) ->
  forall a f,
    dom a -> a <> b -> ff_src f = a -> ff_dst f = b -> ff_sb f = [] -> is_hop_ping (ff_ty f) = false ->
    (forall r, (rank r < rank a)%nat -> r <> a) ->
    N.of_nat (rank a) < ff_ttl f ->
    exists f', deliver_from_origin net rlink flag (S (rank a)) a f = Some (b, f') /\
               ff_ty f' = ff_ty f /\ ff_src f' = ff_src f /\ ff_dst f' = ff_dst f /\ ff_rest f' = ff_rest f /\ ff_sb f' = [].
Proof. exact converged_delivery. Qed.
Print Assumptions C10_converged_delivery.

(* non-vacuity: a three-router line a - r - b with the obvious tables meets the hypotheses *)
Example C10_nonvacuous :
  let a := 253 * 2 ^ 120 + 1 in let r := 253 * 2 ^ 120 + 2 in let b := 253 * 2 ^ 120 + 3 in
  let rt dst nh := mkEntry dst 0 0 nh [mkHop 0 1 5 0; mkHop nh 0 0 6] false src_peer 0%Z 1 1 in
  let net x := if x =? a then mkNode a [(r, 5, 1, false)] [rt r r]
               else if x =? r then mkNode r [(a, 6, 1, false); (b, 7, 1, false)] [rt a a; rt b b]
               else mkNode b [(r, 8, 1, false)] [rt r r] in
  let rlink x p := link_by_peer (net x) p in
  let f := mkFF 32 0 Gen.mt_router_ping a b [] 77 in
  deliver_from_origin net rlink (fun _ _ => 4) 5 a f = Some (b, mkFF 30 4 Gen.mt_router_ping a b [] 77) /\
  crossings_from_origin net rlink (fun _ _ => 4) 9 a f = 2%nat.
Proof. vm_compute. split; reflexivity. Qed.

(* ---------- the translated source (Translated.v) ----------
   FrameV1.TTL / SetTTL / ReduceTTL are translated from frame/frame_v1.go on every run (the TTL is
   the byte at position 1): ReduceTTL saturates at zero for every amount, and ReduceTTL(1) is the
   forwarding model's rule for every TTL byte. *)
Theorem C10_source_reduce_ttl_saturates : forall ttl by_, ttl < 256 -> by_ < 256 ->
  Gen.go_FrameV1_ReduceTTL ttl by_ = if by_ <? ttl then ttl - by_ else 0.
Proof. exact go_reduce_ttl_saturates. Qed.
Print Assumptions C10_source_reduce_ttl_saturates.

Theorem C10_source_reduce_ttl_is_model : forall ttl, ttl < 256 -> Gen.go_FrameV1_ReduceTTL ttl 1 = reduce_ttl ttl.
Proof. exact go_reduce_ttl_is_model. Qed.
Print Assumptions C10_source_reduce_ttl_is_model.

(* flow-control flags (byte 2): setting one makes it readable and clears no other *)
Theorem C10_source_flow_flags : forall fc flag,
  Gen.go_FrameV1_HasFlowFlag (Gen.go_FrameV1_SetFlowFlag fc flag) flag = true /\
  (forall other, Gen.go_FrameV1_HasFlowFlag fc other = true -> Gen.go_FrameV1_HasFlowFlag (Gen.go_FrameV1_SetFlowFlag fc flag) other = true).
Proof. exact go_flow_flags. Qed.
Print Assumptions C10_source_flow_flags.

(* the translated source of FrameDataWithMargins (harness/gen_translate_dec.go): a frame is handed
   to a link together with the link's margins exactly when the room exists in its pooled buffer —
   an exact fit included — and the slice is the frame with that room around it; no request with
   non-negative margins takes a slice out of bounds *)
Theorem C10_source_margins : forall len lps psoff offset overhead,
  (0 <= len)%Z -> (0 <= psoff)%Z -> (0 <= offset)%Z -> (0 <= overhead)%Z ->
  Gen.go_FrameV1_FrameDataWithMargins len lps psoff offset overhead =
    if ((offset <=? psoff)%Z && (psoff + len + overhead <=? lps)%Z)
    then DOk [psoff - offset; psoff + len + overhead]%Z
    else if (offset <=? psoff)%Z then DErr 2 else DErr 1.
Proof. exact go_margins_spec. Qed.
Print Assumptions C10_source_margins.

(* ---------- a route lookup sees one table state (go/ast obligation on the source under test) ---------- *)
(* switch_handle / route_frame read the routing table once per frame; the real LookupNearestRoute
   is one critical section under the table's read lock and every mutating operation one critical
   section under its write lock, so the table a lookup sees is a state of the table model.
   Computed from m/table.go on every run. *)
Theorem C10_lookup_sees_one_table_state : Gen.table_ops_serialised = true /\ Gen.lock_discipline_table = true.
Proof. split; reflexivity. Qed.
Print Assumptions C10_lookup_sees_one_table_state.

(* ---------- C09 and C10 composed: the tables gossip builds deliver (GossipDelivers.v) ---------- *)
(* "Converged" above is a hypothesis about the tables (a rank that decreases along next hops).
   The mesh of announcement handlers of C09 (GossipNet.v: every router runs the handler model on its
   own routing-table model; links symmetric, tables starting with direct-peer routes only)
   establishes it in EVERY state it can reach, drained or not, with rank = hops of the best
   route: a router's route to d via next hop x exists only because x forwarded the announcement
   after adding its own, strictly shorter, route; AddRoute never makes a router's best route
   worse (C11_add_route_never_worsens_best); a lookup returns the route with fewest hops.
   So a frame router a originates for any router b that all routers hold a route to is handed
   to b's handlers, with its content, provided its TTL exceeds the hop count of a's best route. *)
Theorem C10_gossip_mesh_delivers : forall nodes adj cfg lab lat,
  (length nodes <= 98)%nat -> (forall a, adj a a = false) -> (forall a b, adj a b = adj b a) ->
  forall c b a f flag,
  preach nodes adj cfg lab lat c -> routable b = true -> In a nodes -> a <> b ->
  (forall r, In r nodes -> r <> b -> knows (c_tbl c r) b) ->
  ff_src f = a -> ff_dst f = b -> ff_sb f = [] -> is_hop_ping (ff_ty f) = false ->
  N.of_nat (best c b a) < ff_ttl f ->
  exists f', deliver_from_origin (node_of nodes adj lab lat c) (rlink_of nodes adj lab lat c) flag (S (best c b a)) a f = Some (b, f') /\
             ff_ty f' = ff_ty f /\ ff_src f' = ff_src f /\ ff_dst f' = ff_dst f /\ ff_rest f' = ff_rest f /\ ff_sb f' = [].
Proof. exact gossip_mesh_delivers. Qed.
Print Assumptions C10_gossip_mesh_delivers.

(* With C09's reach theorem: in a connected mesh, once nothing is in flight, every router that
   has announced is such a b. *)
Theorem C10_quiescent_mesh_delivers : forall nodes adj cfg lab lat,
  (length nodes <= 98)%nat -> (forall a, adj a a = false) -> (forall a b, adj a b = adj b a) ->
  forall c b a f flag,
  preach nodes adj cfg lab lat c -> c_flight c = [] -> connected nodes adj -> (exists id, In (id, b) (c_anns c)) ->
  routable b = true -> In a nodes -> In b nodes -> a <> b ->
  ff_src f = a -> ff_dst f = b -> ff_sb f = [] -> is_hop_ping (ff_ty f) = false ->
  N.of_nat (best c b a) < ff_ttl f ->
  exists f', deliver_from_origin (node_of nodes adj lab lat c) (rlink_of nodes adj lab lat c) flag (S (best c b a)) a f = Some (b, f') /\
             ff_ty f' = ff_ty f /\ ff_src f' = ff_src f /\ ff_dst f' = ff_dst f /\ ff_rest f' = ff_rest f /\ ff_sb f' = [].
Proof. exact quiescent_mesh_delivers. Qed.
Print Assumptions C10_quiescent_mesh_delivers.

(* the invariant behind it, for every reachable state: a route's next hop is a neighbour that is
   the destination or holds a strictly shorter route *)
Theorem C10_routes_backed_by_next_hop : forall nodes adj cfg lab lat,
  (length nodes <= 98)%nat -> (forall a, adj a a = false) -> (forall a b, adj a b = adj b a) ->
  forall c, preach nodes adj cfg lab lat c ->
  forall r e, In e (c_tbl c r) ->
    In (e_nexthop e) (neighbours nodes adj r) /\
    (e_nexthop e = e_dst e \/ (2 <= e_thops e /\ reach_le (c_tbl c (e_nexthop e)) (e_dst e) (e_thops e - 1))).
Proof.
  intros nodes adj cfg lab lat H1 H2 H3 c Hp r e He.
  destruct (preach_inv nodes adj cfg lab lat H1 H2 H3 c Hp) as [_ (_ & Hent & _)]. exact (Hent r e He).
Qed.
Print Assumptions C10_routes_backed_by_next_hop.

(* non-vacuity: two routers with routable addresses, one announces, the other handles it; the
   hypotheses hold and the frame is delivered with TTL 31 *)
Example C10_gossip_mesh_nonvacuous :
  exists c, preach gx_nodes ex_adj ex_cfgs ex_lab ex_lat c /\ routable gx_b = true /\
            (forall r, In r gx_nodes -> r <> gx_b -> knows (c_tbl c r) gx_b) /\
            N.of_nat (best c gx_b gx_a) < 32 /\
            deliver_from_origin (node_of gx_nodes ex_adj ex_lab ex_lat c) (rlink_of gx_nodes ex_adj ex_lab ex_lat c) (fun _ _ => 0)
              (S (best c gx_b gx_a)) gx_a (mkFF 32 0 Gen.mt_router_ping gx_a gx_b [] 77) = Some (gx_b, mkFF 31 0 Gen.mt_router_ping gx_a gx_b [] 77).
Proof. exact gossip_delivers_nonvacuous. Qed.

(* hop counts never exceed the number of routers (paths are loop-free lists of routers), so in
   meshes of up to 31 routers — C09 quantifies over up to 16 — the TTL every originated frame
   starts with (Gen.frame_default_ttl, read from frame/frame_v1.go on every run) always suffices *)
Theorem C10_default_ttl_suffices : forall nodes adj cfg lab lat,
  (length nodes <= 98)%nat -> (forall a, adj a a = false) -> (forall a b, adj a b = adj b a) ->
  forall c b a f flag,
  (length nodes <= 31)%nat ->
  preach nodes adj cfg lab lat c -> routable b = true -> In a nodes -> a <> b ->
  (forall r, In r nodes -> r <> b -> knows (c_tbl c r) b) ->
  ff_src f = a -> ff_dst f = b -> ff_sb f = [] -> is_hop_ping (ff_ty f) = false ->
  ff_ttl f = Gen.frame_default_ttl ->
  exists f', deliver_from_origin (node_of nodes adj lab lat c) (rlink_of nodes adj lab lat c) flag (S (best c b a)) a f = Some (b, f') /\
             ff_ty f' = ff_ty f /\ ff_src f' = ff_src f /\ ff_dst f' = ff_dst f /\ ff_rest f' = ff_rest f /\ ff_sb f' = [].
Proof. exact default_ttl_suffices. Qed.
Print Assumptions C10_default_ttl_suffices.
