(* C03 — replay protection.  Property theorems only; proofs live in SeqProofs.v. *)
From Verif Require Import Prelude Gen Seq SeqProofs Translated.

(* Every finite delivery history (any order, multiplicity, subset) of sequence numbers:
   the accepted ones are pairwise distinct — also from a stale bitmap left by a key rollover. *)
(* Tie to the code (go/ast on the source, regenerated every run): there is ONE session object per
   sender (State.GetSession looks up, creates and registers under the sessions lock for its whole
   body), ONE replay handler per
   session and its checks are serialised — the lazily created signing / encryption session
   objects are created under the session lock (whole body of Signing / Encryption), and the Check
   methods of both handlers hold the handler lock for their whole body.  Under it every
   interleaving of concurrent receivers is a sequence of Check calls on one handler, which is what
   the theorems below quantify over. *)
Theorem C03_single_serialised_handler :
  Gen.state_getsession_locked = true /\
  Gen.session_signing_locked = true /\ Gen.session_encryption_locked = true /\
  Gen.seq_check_locked = true /\ Gen.timeseq_check_locked = true.
Proof. repeat split; reflexivity. Qed.

Theorem C03_at_most_once : forall (b0 : N) (l : list N),
  NoDup (accepted check {| hi := 0; bm := b0 |} l).
Proof. exact at_most_once_any_bitmap. Qed.
Print Assumptions C03_at_most_once.

(* Frames whose AEAD does not open change no window state; frames that open are accepted at
   most once (end-to-end frames and link frames share this path: Open, then Check). *)
Theorem C03_delivered_at_most_once : forall (b0 : N) (l : list (N * bool)),
  NoDup (delivered {| hi := 0; bm := b0 |} l).
Proof. exact delivered_at_most_once. Qed.
Print Assumptions C03_delivered_at_most_once.

(* ... also when key-setup attempts that fail (low-order point, unsupported exchange, completion
   without an exchange in progress) are interleaved anywhere in the history: they are no step. *)
Theorem C03_delivered_at_most_once_failed_setups : forall (b0 : N) (l : list dop),
  NoDup (delivered_ops {| hi := 0; bm := b0 |} l).
Proof. exact delivered_ops_at_most_once. Qed.
Print Assumptions C03_delivered_at_most_once_failed_setups.

(* Not a duplicate, not 0, newer than or at most 64 behind the newest accepted => accepted. *)
Theorem C03_window_liveness : forall (l : list N) (q : N),
  let s := final check sh_init l in
  q <> 0 -> ~ In q (accepted check sh_init l) -> hi s <= q + 64 ->
  snd (check s q) = true.
Proof. exact window_liveness. Qed.
Print Assumptions C03_window_liveness.

(* Signed frames: accepted timestamps are strictly increasing, hence at most once. *)
Theorem C03_signed_strict : forall (l : list Z) (latest : Z),
  StronglySorted Z.lt (taccepted latest l).
Proof. exact signed_strict. Qed.
Print Assumptions C03_signed_strict.

Theorem C03_signed_at_most_once : forall (latest : Z) (l : list Z), NoDup (taccepted latest l).
Proof. exact signed_at_most_once. Qed.
Print Assumptions C03_signed_at_most_once.

(* non-vacuity: a history with duplicates and reordering where something is accepted,
   something is rejected, and the liveness premises are met by a late frame *)
Example C03_nonvacuous :
  accepted check sh_init [1;2;3;2;70;5;6;5;1] = [1;2;3;70;6] /\
  (let s := final check sh_init [1;5;70] in 8 <> 0 /\ ~ In 8 (accepted check sh_init [1;5;70]) /\ hi s <= 8 + 64).
Proof. vm_compute. split; [reflexivity|]. split; [discriminate|]. split; [|discriminate]. intros [H|[H|[H|[]]]]; discriminate. Qed.

(* ---------- the translated source (Translated.v) ----------
   Gen.go_SequenceHandler_Check / Gen.go_TimeSequenceHandler_Check are TRANSLATED from
   state/session_encryption.go and state/session_signing.go on every run (go/ast + go/types, uint32 /
   uint64 wrap written out).  They equal the model functions above for every machine-integer
   input, so the theorems hold of the code as written now: *)
Theorem C03_source_check_is_model : forall b h q, h < 2 ^ 32 -> q < 2 ^ 32 ->
  let '(b', h', c) := Gen.go_SequenceHandler_Check b h q in
  let '(s', ok) := check {| hi := h; bm := b |} q in
  b' = bm s' /\ h' = hi s' /\ code_ok c = ok.
Proof. exact go_check_is_model. Qed.
Print Assumptions C03_source_check_is_model.

Theorem C03_source_at_most_once : forall b0 l,
  Forall (fun q => q < 2 ^ 32) l -> NoDup (go_accepted b0 0 l).
Proof. exact go_at_most_once. Qed.
Print Assumptions C03_source_at_most_once.

Theorem C03_source_timecheck_is_model : forall latest t,
  let '(l', c) := Gen.go_TimeSequenceHandler_Check latest t in (l', code_ok c) = tcheck latest t.
Proof. exact go_tcheck_is_model. Qed.
Print Assumptions C03_source_timecheck_is_model.
