(* C19 — name resolution.  Property theorems only; proofs in DnsProofs.v. *)
From Verif Require Import Prelude Dns DnsProofs.

(* Every query is answered, none crashes the handler — including a message without question. *)
Theorem C19_handle_total : forall c qs, handle_request c qs <> Panic.
Proof. exact handle_total. Qed.
Print Assumptions C19_handle_total.

Theorem C19_empty_question : forall c, handle_request c [] = Ok (rcode_nxdomain, 0, src_none).
Proof. exact handle_empty. Qed.
Print Assumptions C19_empty_question.

(* Only names under .myco, only A/AAAA/SVCB/HTTPS/ANY, only class IN/ANY: everything else gets a
   name error. *)
Theorem C19_filters : forall c qn qt qc r,
  has_suffix (to_lower qn) tld_between_dots = false \/ type_ok qt = false \/ class_ok qc = false ->
  handle_request c ((qn, qt, qc) :: r) = Ok (rcode_nxdomain, 0, src_none).
Proof. exact handle_filters. Qed.
Print Assumptions C19_filters.

(* A positive answer is exactly lookup's value for the lower-cased name without the trailing dot,
   and never comes from the forbidden list. *)
Theorem C19_answer_is_lookup : forall c qn qt qc r rc ip s,
  handle_request c ((qn, qt, qc) :: r) = Ok (rc, ip, s) -> rc = rcode_success ->
  has_suffix (to_lower qn) tld_between_dots = true /\ type_ok qt = true /\ class_ok qc = true /\
  lookup c (trim_suffix (to_lower qn) dot) = (ip, s) /\ s <> src_none /\ s <> src_forbidden.
Proof. exact handle_answer. Qed.
Print Assumptions C19_answer_is_lookup.

(* Fixed precedence, and the returned address is exactly the one the chosen source holds. *)
Theorem C19_prec_api : forall c n, name_in n api_names = true -> lookup c n = (d_api c, src_internal).
Proof. exact lookup_api. Qed.
Theorem C19_prec_resolve : forall c n ip,
  name_in n api_names = false -> map_get n (d_resolve c) None = Some ip -> lookup c n = (ip, src_resolve).
Proof. exact lookup_resolve. Qed.
Theorem C19_prec_forbidden : forall c n,
  name_in n api_names = false -> map_get n (d_resolve c) None = None -> name_in n forbidden_names = true ->
  lookup c n = (0, src_forbidden).
Proof. exact lookup_forbidden. Qed.
Theorem C19_prec_friend : forall c n ip,
  name_in n api_names = false -> map_get n (d_resolve c) None = None -> name_in n forbidden_names = false ->
  friend_get c n = Some ip -> lookup c n = (ip, src_friend).
Proof. exact lookup_friend. Qed.
Theorem C19_prec_mapping : forall c n ip,
  name_in n api_names = false -> map_get n (d_resolve c) None = None -> name_in n forbidden_names = false ->
  friend_get c n = None -> map_get n (d_mappings c) None = Some ip -> lookup c n = (ip, src_mapping).
Proof. exact lookup_mapping. Qed.
Theorem C19_prec_none : forall c n,
  name_in n api_names = false -> map_get n (d_resolve c) None = None -> name_in n forbidden_names = false ->
  friend_get c n = None -> map_get n (d_mappings c) None = None -> lookup c n = (0, src_none).
Proof. exact lookup_none. Qed.
Print Assumptions C19_prec_api. Print Assumptions C19_prec_resolve. Print Assumptions C19_prec_forbidden.
Print Assumptions C19_prec_friend. Print Assumptions C19_prec_mapping. Print Assumptions C19_prec_none.

(* A stored mapping can never change the answer for a built-in, configured, forbidden or friend
   name — for any two mapping stores. *)
Theorem C19_mapping_cannot_shadow : forall c n maps',
  name_in n api_names = true \/ map_get n (d_resolve c) None <> None \/ name_in n forbidden_names = true \/ friend_get c n <> None ->
  lookup (mkDcfg (d_api c) (d_resolve c) (d_friends c) maps') n = lookup c n.
Proof. exact mapping_cannot_shadow. Qed.
Print Assumptions C19_mapping_cannot_shadow.

(* non-vacuity: "alice.myco" is a friend, a mapping for the same name is ignored *)
Example C19_nonvacuous :
  let alice := [97;108;105;99;101] in
  let c := mkDcfg 9 [] [(alice, 77)] [(alice ++ dot_tld, 66)] in
  friend_get c (alice ++ dot_tld) = Some 77 /\ lookup c (alice ++ dot_tld) = (77, src_friend) /\
  handle_request c [(alice ++ tld_between_dots, 28, 1)] = Ok (rcode_success, 77, src_friend).
Proof. vm_compute. repeat split. Qed.
