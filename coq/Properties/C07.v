(* C07 — control plane authenticity.  Property theorems only; proofs in ControlProofs.v.
   [p_auth] = the ping verifies under the key bound to its source address (what that means for
   the bytes is C02: everything but TTL, flow flags and appendix is covered — so a tampered or
   re-addressed ping has p_auth = false). *)
From Verif Require Import Prelude Gen SwitchLabel Table Control ControlProofs.

(* A ping that does not verify under the key bound to its source changes none of: session keys,
   peer MTU, routes, stored public info, offline flag, connection status — for every ping kind,
   code and body. *)
Theorem C07_unauth_no_effect : forall self c p, p_auth p = false -> project (handle_ping self c p) = project c.
Proof. exact unauth_no_effect. Qed.
Print Assumptions C07_unauth_no_effect.

(* First contact: unless the key in the header hashes to the source address, nothing at all
   changes. *)
Theorem C07_bad_header_no_effect : forall self c p,
  mem (p_src p) (c_known c) = false -> p_hdr_ok p = false -> handle_ping self c p = c.
Proof. exact bad_header_no_effect. Qed.
Print Assumptions C07_bad_header_no_effect.

(* Replays: a ping not newer than the newest accepted from that source changes nothing, whatever
   was handled in between; the one tolerance is an exact duplicate of the newest HOP ping. *)
Theorem C07_replay_no_effect : forall self c p last,
  mem (p_src p) (c_known c) = true -> aget (latest_key p) (c_latest c) = Some last ->
  (p_time p <= last)%Z -> (p_hop p = false \/ p_time p <> last) ->
  project (handle_ping self c p) = project c.
Proof. exact replay_no_effect. Qed.
Print Assumptions C07_replay_no_effect.

(* A disconnect from X removes exactly the routes whose destination, next hop or path contains
   X — for every routing table content. *)
Theorem C07_disconnect_scope : forall self c p e,
  p_kind p = k_disconnect ->
  In e (c_routes (effect self c p)) <->
  In e (c_routes c) /\ e_dst e <> p_src p /\ e_nexthop e <> p_src p /\ ~ In (p_src p) (map h_router (e_path e)).
Proof. exact disconnect_scope. Qed.
Print Assumptions C07_disconnect_scope.

(* A hello from X re-keys only the session with X. *)
Theorem C07_hello_scope : forall self c p y,
  p_kind p = k_hello -> y <> p_src p ->
  aget y (c_keys (effect self c p)) = aget y (c_keys c) /\
  c_routes (effect self c p) = c_routes c /\ c_info (effect self c p) = c_info c /\
  c_offline (effect self c p) = c_offline c /\ c_conn (effect self c p) = c_conn c.
Proof. exact hello_scope. Qed.
Print Assumptions C07_hello_scope.

(* ---------- one session per sender (go/ast obligation on the source under test) ---------- *)
(* [C07_replay_no_effect] speaks of THE timestamp the router last accepted from a sender
   ([c_latest]).  The router runs one frame handler worker per CPU; the original of a ping and a
   replay can be handled at the same moment.  There is one timestamp because there is one session
   object per sender: State.GetSession looks up, creates and registers the session under the
   sessions lock for its whole body, and the timestamp check runs under the handler lock. *)
Theorem C07_one_session_per_sender :
  Gen.state_getsession_locked = true /\ Gen.session_signing_locked = true /\ Gen.timeseq_check_locked = true.
Proof. repeat split; reflexivity. Qed.
Print Assumptions C07_one_session_per_sender.

(* ---------- lock discipline of the operations the model treats as atomic (go/ast obligation on the source under test) ---------- *)
(* The ping handlers' pending-state maps (hello, ping-pong, error cooldowns), the connection-state
   table and the ping-handler registry are read and written under their mutex for the whole
   operation (16 methods of package router), and so are the session operations (21 methods of
   package state): a handler's effect on the projected state is one step, as handle_ping has it. *)
Theorem C07_lock_discipline : Gen.lock_discipline_router = true /\ Gen.lock_discipline_state = true.
Proof. repeat split; reflexivity. Qed.
Print Assumptions C07_lock_discipline.

(* ---------- the removal a disconnect triggers is one step of the table (go/ast obligation) ---------- *)
(* The control-plane model applies remove_disconnected to the router's table as ONE transition:
   "removes only routes whose destination, next hop or path contains X" is a statement about the
   table before and after that transition.  Several frame workers handle pings at once, so the
   statement carries over to the real router only if RemoveDisconnected (like every mutating table
   operation) is one critical section under the table's write lock — no search under a read lock
   followed by a delete under the write lock.  Computed from m/table.go on every run. *)
Theorem C07_disconnect_removal_is_one_step : Gen.table_ops_serialised = true /\ Gen.lock_discipline_table = true.
Proof. split; reflexivity. Qed.
Print Assumptions C07_disconnect_removal_is_one_step.
