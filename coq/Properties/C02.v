(* C02 — sealed frames.  Property theorems only; proofs in FrameProofs.v. *)
From Verif Require Import Prelude Gen Frame FrameProofs Seq SeqProofs Translated TranslatedDec.

(* Layout: a built frame parses to the indices it was built with and every accessor returns
   the input it was built from (all message types, payload 1..limit, switch block 0..255,
   appendix 0..limit). *)
Theorem C02_parse_build : forall ty src dst sb msg apx nonce3 d ix,
  length nonce3 = 3%nat -> length src = 16%nat -> length dst = 16%nat ->
  build ty src dst sb msg apx nonce3 = Ok (d, ix) ->
  parse d = Ok ix /\
  byte_at d 4 = ty /\ src_part d = src /\ dst_part d = dst /\
  switch_block d ix = sb /\ msg_part d ix = msg /\
  auth_part d ix = repeat 0 (auth_size ty) /\ apx_part d ix = apx /\
  byte_at d 1 = 32 /\ byte_at d 2 = 0.
Proof. exact parse_build. Qed.
Print Assumptions C02_parse_build.

(* Round trip, encrypted classes: what A seals unseals at B (B's open is the inverse of A's
   seal under the shared key) to exactly the original payload; the sealed frame keeps its
   length; its message range is ciphertext only. *)
Theorem C02_unseal_seal_enc :
  forall (verify : list N -> list N -> bool) (aopen : list N -> list N -> list N -> option (list N))
         (sign : list N -> list N) (aseal : list N -> list N -> list N -> list N),
  (forall m, length (sign m) = 64%nat) ->
  (forall m, verify m (sign m) = true) ->
  (forall n a p, length (aseal n a p) = (length p + 16)%nat) ->
  (forall n a p, aopen n a (aseal n a p) = Some p) ->
  forall d ix seq ack rate,
  parse d = Ok ix -> byte_at d 4 < 256 ->
  ((msg_class (byte_at d 4) =? class_prio_enc) || (msg_class (byte_at d 4) =? class_enc)) = true ->
  let d2 := seal_enc aseal d ix seq ack rate in
  unseal verify aopen d2 = Ok (msg_part d ix) /\
  length d2 = length d /\
  msg_part d2 ix = firstn (ai ix - (mi ix + 2)) (aseal (nonce_part d2) (aad_part d2 ix) (msg_part d ix)).
Proof. exact unseal_seal_enc. Qed.
Print Assumptions C02_unseal_seal_enc.

Theorem C02_unseal_seal_signed :
  forall (verify : list N -> list N -> bool) (aopen : list N -> list N -> list N -> option (list N))
         (sign : list N -> list N) (aseal : list N -> list N -> list N -> list N),
  (forall m, length (sign m) = 64%nat) ->
  (forall m, verify m (sign m) = true) ->
  (forall n a p, length (aseal n a p) = (length p + 16)%nat) ->
  (forall n a p, aopen n a (aseal n a p) = Some p) ->
  forall d ix t,
  parse d = Ok ix -> byte_at d 4 < 256 -> (msg_class (byte_at d 4) =? class_signed) = true ->
  let d2 := seal_signed sign d ix t in
  unseal verify aopen d2 = Ok (msg_part d ix) /\ length d2 = length d.
Proof. exact unseal_seal_signed. Qed.
Print Assumptions C02_unseal_seal_signed.

(* Authenticity under any session: whatever unseals under a session is, on everything the
   authenticator covers, something the owner of that session's key sealed — so a frame of a
   different sender (or, for the encrypted classes, for a different receiver: different key)
   unseals only if that other key owner produced exactly these covered bytes. *)
Theorem C02_accept_implies_sealed :
  forall verify aopen (issued : list protected),
  (forall m s, verify m s = true -> In (PSigned m s) issued) ->
  (forall n a c q, aopen n a c = Some q -> In (PSealed n a c) issued) ->
  forall d p, unseal verify aopen d = Ok p ->
  exists ix, parse d = Ok ix /\ In (protected_of d ix) issued /\ protected_of d ix <> PNone.
Proof. exact unseal_authentic. Qed.
Print Assumptions C02_accept_implies_sealed.

(* What the authenticator covers pins down the indices and every byte before the appendix
   except TTL (1) and flow control (2): version, rate, type, nonce, sequence fields, addresses,
   switch block and its length, message length, payload, signature/MAC. *)
Theorem C02_protected_determines : forall d d' ix ix',
  parse d = Ok ix -> parse d' = Ok ix' ->
  protected_of d ix <> PNone ->
  protected_of d ix = protected_of d' ix' ->
  ix = ix' /\ forall i, (i < xi ix)%nat -> i <> 1%nat -> i <> 2%nat -> byte_at d i = byte_at d' i.
Proof. exact protected_determines. Qed.
Print Assumptions C02_protected_determines.

(* Changing any such byte of a sealed frame: the result unseals only as a different frame the
   key owner sealed; if d0 is the only one, never. *)
Theorem C02_tamper_rejected :
  forall verify aopen (issued : list protected),
  (forall m s, verify m s = true -> In (PSigned m s) issued) ->
  (forall n a c q, aopen n a c = Some q -> In (PSealed n a c) issued) ->
  forall d0 ix0 i v p,
  parse d0 = Ok ix0 -> (i < xi ix0)%nat -> i <> 1%nat -> i <> 2%nat -> v <> byte_at d0 i ->
  unseal verify aopen (set_nth d0 i v) = Ok p ->
  exists q, In q issued /\ q <> protected_of d0 ix0.
Proof. exact tamper_rejected. Qed.
Print Assumptions C02_tamper_rejected.

Theorem C02_tamper_rejected_single : forall verify aopen d0 ix0 i v,
  (forall m s, verify m s = true -> PSigned m s = protected_of d0 ix0) ->
  (forall n a c q, aopen n a c = Some q -> PSealed n a c = protected_of d0 ix0) ->
  parse d0 = Ok ix0 -> (i < xi ix0)%nat -> i <> 1%nat -> i <> 2%nat -> v <> byte_at d0 i ->
  forall p, unseal verify aopen (set_nth d0 i v) <> Ok p.
Proof. exact tamper_rejected_single. Qed.
Print Assumptions C02_tamper_rejected_single.

(* TTL, flow-control flags and the appendix (any replacement, any length) never change the
   outcome of unsealing nor the delivered payload. *)
Theorem C02_hop_mutable_free : forall verify aopen d ix ttl flow apx',
  parse d = Ok ix -> (mi ix + 3 <= ai ix)%nat ->
  unseal verify aopen (hop_mutate d ix ttl flow apx') = unseal verify aopen d.
Proof. exact hop_mutable_free. Qed.
Print Assumptions C02_hop_mutable_free.

(* Tie to the code's tables (generated): IsEncrypted and Class agree on all 256 type bytes. *)
Theorem C02_enc_class_consistent : forall ty, ty < 256 ->
  is_enc ty = (msg_class ty =? class_prio_enc) || (msg_class ty =? class_enc).
Proof. exact enc_class_consistent. Qed.
Print Assumptions C02_enc_class_consistent.

(* A rejected frame leaves no trace at the receiver.  Unseal = authenticate (signature / AEAD),
   THEN the replay filter; a frame that fails authentication takes no step of the filter, so the
   frames that are delivered out of any history are exactly those the filter accepts out of the
   authentic frames alone — whatever sequence numbers or timestamps the forgeries carried, and
   however many there were.  (Tied to the code by the harness: every tampered frame is followed by
   the genuine frame on the same receiver state, and C03's histories carry forged sequence
   fields.) *)
Theorem C02_rejected_frames_leave_no_trace_enc : forall (l : list (N * bool)) s,
  delivered s l = accepted check s (map fst (filter snd l)).
Proof. intros l s. apply delivered_is_accepted. Qed.
Print Assumptions C02_rejected_frames_leave_no_trace_enc.

Theorem C02_rejected_frames_leave_no_trace_signed : forall (l : list (Z * bool)) latest,
  tdelivered latest l = taccepted latest (map fst (filter snd l)).
Proof. intros l latest. apply tdelivered_is_taccepted. Qed.
Print Assumptions C02_rejected_frames_leave_no_trace_signed.

(* non-vacuity: a concrete encrypted-class frame with switch block and appendix *)
Example C02_nonvacuous :
  exists d ix,
    build 8 (repeat 7 16) (repeat 9 16) [5;6] [10;11;12] [77] [1;2;3] = Ok (d, ix) /\
    parse d = Ok ix /\ (mi ix + 3 <= ai ix)%nat /\ protected_of d ix <> PNone /\
    ((msg_class (byte_at d 4) =? class_prio_enc) || (msg_class (byte_at d 4) =? class_enc)) = true.
Proof.
  eexists. eexists. split; [vm_compute; reflexivity|]. split; [vm_compute; reflexivity|].
  split; [vm_compute; lia|]. split; [vm_compute; discriminate|vm_compute; reflexivity].
Qed.

(* the translated source of MessageType.Class / IsPriority / IsEncrypted (regenerated every run)
   agrees on every uint8 with the class tables tabulated from the compiled code, which the frame
   model uses *)
Theorem C02_source_message_type_tables : forall t, t < 256 ->
  Gen.go_MessageType_Class t = Gen.msg_class t /\
  Gen.go_MessageType_IsPriority t = Gen.is_prio t /\
  Gen.go_MessageType_IsEncrypted t = Gen.is_enc t.
Proof. exact go_message_type_tables. Qed.
Print Assumptions C02_source_message_type_tables.

(* the translated source of ParseFrame / ParseFrameV1 (harness/gen_translate_dec.go, regenerated
   every run): for every byte string the translated decoder returns the model's indices, or an
   error where the model returns one; it never reads a byte or takes a slice outside the frame.
   The layout theorems above are therefore theorems about what the Go source computes. *)
Theorem C02_source_parse_is_model : forall d, bytes_ok d ->
  dres_idx (Gen.go_Builder_ParseFrame d) = forget_code (parse d).
Proof. intros d H. apply go_parse_is_model; [exact H | reflexivity | reflexivity]. Qed.
Print Assumptions C02_source_parse_is_model.

(* ... and the accessors the crypto ranges are built from are the Go source's slice expressions *)
Theorem C02_source_accessors_are_model : forall d ix, parse d = Ok ix ->
  let L := Z.of_nat (length d) in
  let M := Z.of_nat (mi ix) in let A := Z.of_nat (ai ix) in let X := Z.of_nat (xi ix) in
  zrange d (Gen.go_FrameV1_SwitchBlock L M) = Some (switch_block d ix) /\
  zrange d (Gen.go_FrameV1_MessageData L M A) = Some (msg_part d ix) /\
  zrange d (Gen.go_FrameV1_MessageDataWithAuth L M X) = Some (ct_part d ix) /\
  zrange d (Gen.go_FrameV1_AuthData L A X) = Some (auth_part d ix) /\
  zrange d (Gen.go_FrameV1_AppendixData L X) = Some (apx_part d ix).
Proof. exact go_accessors_are_model. Qed.
Print Assumptions C02_source_accessors_are_model.
