(* C18 — the state file survives crashes.  Property theorems only; proofs in StorageProofs.v.
   [data] is the byte string a state serialises to; the theorems hold for every byte string. *)
From Verif Require Import Prelude Gen Storage StorageProofs.

(* Tie to the code (go/ast on the source, regenerated every run): Stop saves through
   writeFileAtomic; the temporary file is opened with O_CREATE and O_TRUNC; it is synced before it
   is renamed over the state file. *)
Theorem C18_save_shape :
  Gen.storage_stop_uses_atomic = true /\ Gen.storage_tmp_trunc = true /\ Gen.storage_sync_then_rename = true.
Proof. repeat split; reflexivity. Qed.

(* One save, cut short anywhere — before the open, after it, at any byte offset of the write,
   before the rename — or completing: the state file holds what it held before, or the complete
   new data. *)
Theorem C18_save_atomic : forall s data c,
  f_state (save true s data c) = f_state s \/ f_state (save true s data c) = Some data.
Proof. exact save_atomic. Qed.
Print Assumptions C18_save_atomic.

(* Any history of saves and crashes (stale temporary files included): the state file still holds
   its initial content or the complete data of one of the saves ... *)
Theorem C18_run_atomic : forall h s,
  f_state (run true s h) = f_state s \/ exists x, In x h /\ f_state (run true s h) = Some (fst x).
Proof. exact run_atomic. Qed.
Print Assumptions C18_run_atomic.

(* ... so the next start always finds a file it can load. *)
Theorem C18_run_loads : forall valid h s,
  loads valid s = true -> Forall (fun x => valid (fst x) = true) h -> loads valid (run true s h) = true.
Proof. exact run_loads. Qed.
Print Assumptions C18_run_loads.

Theorem C18_save_complete : forall s data, save true s data CNone = mkFs (Some data) None.
Proof. exact save_complete. Qed.
Print Assumptions C18_save_complete.

(* Saving and reloading: whatever a session did to the loaded state — look-ups (which stamp
   UsedAt) only, included — the state the storage holds when it stops is the state the next
   start loads (the JSON codec's own round trip is the hypothesis; it is validated by the
   harness on generated states). *)
Theorem C18_session_roundtrip : forall (M : Type) (ser : M -> list N) (de : list N -> option M),
  (forall m, de (ser m) = Some m) -> forall s m0 ops,
  exists d, f_state (session M ser s m0 ops) = Some d /\ de d = Some (fold_left (sapply M) ops m0).
Proof. exact session_roundtrip. Qed.
Print Assumptions C18_session_roundtrip.

(* a storage that skips the save when no write operation happened violates it *)
Theorem C18_session_skip_refuted : exists (ser : N -> list N) (de : list N -> option N),
  (forall m, de (ser m) = Some m) /\
  exists s m0 ops, (match f_state (session_skip_unmodified N ser s m0 ops) with
                    | Some d => de d | None => None end) <> Some (fold_left (sapply N) ops m0).
Proof. exact session_skip_refuted. Qed.
Print Assumptions C18_session_skip_refuted.

(* non-vacuity: a crashed long save followed by a completed short one *)
Example C18_nonvacuous :
  run true (mkFs (Some [9]) None) [([1;2;3;4;5], CWrite 3); ([7;8], CNone)] = mkFs (Some [7;8]) None /\
  run true (mkFs (Some [9]) None) [([1;2;3;4;5], CWrite 3)] = mkFs (Some [9]) (Some [1;2;3]).
Proof. split; reflexivity. Qed.

(* ---------- lock discipline of the operations the model treats as atomic (go/ast obligation on the source under test) ---------- *)
(* The in-memory state the saves are taken from is read and written under its mutexes for the whole
   operation (9 methods of MemStorage): a save sees a state some sequence of operations produced. *)
Theorem C18_lock_discipline : Gen.lock_discipline_storage = true.
Proof. repeat split; reflexivity. Qed.
Print Assumptions C18_lock_discipline.

(* ---------- look-ups do not write under the read lock (go/ast obligation; defect D26) ---------- *)
(* The storage model treats a look-up that stamps UsedAt as one step that changes the state.  Two
   look-ups can run at once only under the read lock; a method that takes only the read lock of its
   receiver assigns to nothing but its own locals (21 such methods in storage, state, peering,
   router, m, switchr, mgr, frame, config; recomputed on every run), so every step that changes the
   stored state holds the write lock.  (MemStorage.GetRouter stamped UsedAt under RLock: fix ad3369d.) *)
Theorem C18_read_locked_sections_do_not_write : Gen.read_locked_sections_do_not_write = true.
Proof. reflexivity. Qed.
Print Assumptions C18_read_locked_sections_do_not_write.
