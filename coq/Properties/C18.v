(* C18 — the state file survives crashes.  Property theorems only; proofs in StorageProofs.v.
   [data] is the byte string a state serialises to; the theorems hold for every byte string. *)
From Verif Require Import Prelude Gen Storage StorageProofs.

(* Tie to the code (go/ast on the source, regenerated every run): Stop saves through
   writeFileAtomic; the temporary file is opened with O_CREATE and O_TRUNC; it is synced before it
   is renamed over the state file. *)
Theorem C18_save_shape :
  Gen.storage_stop_uses_atomic = true /\ Gen.storage_tmp_trunc = true /\ Gen.storage_sync_then_rename = true.
Proof. repeat split; reflexivity. Qed.

(* One save, cut short anywhere — before the open, after it, at any byte offset of the write,
   before the rename — or completing: the state file holds what it held before, or the complete
   new data. *)
Theorem C18_save_atomic : forall s data c,
  f_state (save true s data c) = f_state s \/ f_state (save true s data c) = Some data.
Proof. exact save_atomic. Qed.
Print Assumptions C18_save_atomic.

(* Any history of saves and crashes (stale temporary files included): the state file still holds
   its initial content or the complete data of one of the saves ... *)
Theorem C18_run_atomic : forall h s,
  f_state (run true s h) = f_state s \/ exists x, In x h /\ f_state (run true s h) = Some (fst x).
Proof. exact run_atomic. Qed.
Print Assumptions C18_run_atomic.

(* ... so the next start always finds a file it can load. *)
Theorem C18_run_loads : forall valid h s,
  loads valid s = true -> Forall (fun x => valid (fst x) = true) h -> loads valid (run true s h) = true.
Proof. exact run_loads. Qed.
Print Assumptions C18_run_loads.

Theorem C18_save_complete : forall s data, save true s data CNone = mkFs (Some data) None.
Proof. exact save_complete. Qed.
Print Assumptions C18_save_complete.

(* non-vacuity: a crashed long save followed by a completed short one *)
Example C18_nonvacuous :
  run true (mkFs (Some [9]) None) [([1;2;3;4;5], CWrite 3); ([7;8], CNone)] = mkFs (Some [7;8]) None /\
  run true (mkFs (Some [9]) None) [([1;2;3;4;5], CWrite 3)] = mkFs (Some [9]) (Some [1;2;3]).
Proof. split; reflexivity. Qed.
