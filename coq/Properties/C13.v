(* C13 — no input from the network can panic a router worker.  Property theorems only; proofs
   in MalformedProofs.v and in the proof files of the parsers modelled elsewhere.  Every model
   function returns in a three-valued result (Ok / Err / Panic) in which Panic stands for a Go
   run-time panic (slice or index out of range, explicit panic); the theorems say that no input
   whatsoever reaches Panic. *)
From Verif Require Import Prelude Gen Frame FrameProofs SwitchLabel SwitchLabelProofs Table Control Forward
  LinkFrame LinkFrameProofs Address AddressProofs Dns DnsProofs Malformed MalformedProofs TranslatedDec TranslatedImp.

(* Tie to the code: every bounds check the models contain is present in the source and dominates
   the slice or index expression it protects (go/ast, regenerated on every run). *)
Theorem C13_guards_present :
  Gen.guard_ann_layer_size = true /\ Gen.guard_ping_hdr_min = true /\ Gen.guard_ping_hdr_len = true /\
  Gen.guard_traffic_min = true /\ Gen.guard_rotate_room = true /\ Gen.guard_link_frame_min = true.
Proof. repeat split; reflexivity. Qed.

(* arbitrary bytes to the frame parser *)
Theorem C13_parse_no_panic : forall d, parse d <> Panic.
Proof. exact parse_no_panic. Qed.
Print Assumptions C13_parse_no_panic.

Theorem C13_parse_accessors_in_range : forall d ix, parse d = Ok ix ->
  (49 <= mi ix)%nat /\ (mi ix + 2 <= ai ix)%nat /\ (ai ix <= xi ix)%nat /\ (xi ix <= length d)%nat.
Proof. exact parse_accessors_in_range. Qed.
Print Assumptions C13_parse_accessors_in_range.

(* arbitrary chunks to the link reader's unseal *)
Theorem C13_link_unseal_no_panic : forall issued w chunk, snd (lf_unseal issued w chunk) <> Panic.
Proof. exact lf_no_panic. Qed.
Print Assumptions C13_link_unseal_no_panic.

(* any switch block, any return label *)
Theorem C13_rotate_no_panic : forall block extra ret, ret < 65536 -> rotate block extra ret <> Panic.
Proof. exact rotate_no_panic. Qed.
Print Assumptions C13_rotate_no_panic.

(* any frame through the switch and the router's forwarding, with any tables and link maps *)
Theorem C13_switch_handle_no_panic : forall nd f recv flag,
  (forall r, recv = Some r -> lnk_label r < 65536) -> switch_handle nd f recv flag <> OPanic.
Proof. exact switch_handle_no_panic. Qed.
Print Assumptions C13_switch_handle_no_panic.

(* any ping message: header length byte, header and body of any size *)
Theorem C13_ping_split_no_panic : forall len b1 hdr_ok, ping_split len b1 hdr_ok <> Panic.
Proof. exact ping_split_no_panic. Qed.
Print Assumptions C13_ping_split_no_panic.

Theorem C13_ping_split_bounds : forall len b1 hdr_ok h b,
  ping_split len b1 hdr_ok = Ok (h, b) -> (2 + h + b = len)%nat /\ h = N.to_nat b1.
Proof. exact ping_split_bounds. Qed.
Print Assumptions C13_ping_split_bounds.

(* any hop-record chain: any nesting, any layer lengths, whatever decodes or verifies *)
Theorem C13_ann_layers_no_panic : forall infos len, ann_layers infos len <> Panic.
Proof. exact ann_layers_no_panic. Qed.
Print Assumptions C13_ann_layers_no_panic.

(* any decrypted traffic packet *)
Theorem C13_traffic_meta_no_panic : forall len proto, traffic_meta len proto <> Panic.
Proof. exact traffic_meta_no_panic. Qed.
Print Assumptions C13_traffic_meta_no_panic.

(* any identity: hash-algorithm name, key-type name, key size *)
Theorem C13_verify_address_total : forall H a, verify_address H a <> Panic.
Proof. exact verify_total. Qed.
Print Assumptions C13_verify_address_total.

(* any DNS question list *)
Theorem C13_dns_total : forall c qs, handle_request c qs <> Panic.
Proof. exact handle_total. Qed.
Print Assumptions C13_dns_total.

(* any hop list handed to BuildBlocks *)
Theorem C13_build_blocks_no_panic : forall hops,
  Forall (fun h => u16 (fst h) /\ u16 (snd h)) hops -> build_blocks hops <> Panic.
Proof. exact build_blocks_no_panic. Qed.
Print Assumptions C13_build_blocks_no_panic.

(* ---------- no path leaves a mutex held (go/ast obligation on the source under test) ---------- *)
(* "No input stalls a worker": a handler that returns on some path with a mutex still held stalls
   every worker that needs that mutex afterwards, and the input that reaches the path can be rare
   (a sequence number near the wrap).  Every one of the Gen.lock_acquisitions lock statements in
   the peering, state, router, m, storage, switchr, frame, api/dns, mgr, config and tun packages is
   followed at once by the matching deferred unlock, or by the matching unlock in the same
   statement list with only plain assignments and expression statements in between.  Computed
   from the source on every run. *)
Theorem C13_no_lock_left_held : Gen.locks_released = true /\ (0 < Gen.lock_acquisitions)%nat.
Proof. split; [reflexivity | vm_compute; lia]. Qed.
Print Assumptions C13_no_lock_left_held.

(* ---------- the frame decoder as translated from the Go source ---------- *)
(* Every index expression data[i] and slice expression data[a:b] of ParseFrame / ParseFrameV1 is
   translated with its bound check (DPanic when it fails; the bound is the LENGTH of the frame, so
   this also excludes reading pooled-buffer bytes between len and cap).  For arbitrary bytes the
   translated decoder never reaches DPanic. *)
Theorem C13_source_parse_no_panic : forall d, bytes_ok d -> Gen.go_Builder_ParseFrame d <> DPanic.
Proof. intros d H. apply go_parse_no_panic; [exact H | reflexivity | reflexivity]. Qed.
Print Assumptions C13_source_parse_no_panic.

(* the link frame's three slice expressions on any chunk that passed Unseal's size check *)
Theorem C13_source_link_ranges : forall len, (28 <= len)%Z ->
  Gen.go_LinkFrame_Nonce len = DOk [0; 12]%Z /\
  Gen.go_LinkFrame_LinkData len = DOk [12; len - 16]%Z /\
  Gen.go_LinkFrame_LinkDataWithAuth len = DOk [12; len]%Z.
Proof. exact go_link_ranges. Qed.
Print Assumptions C13_source_link_ranges.

(* parsePingHeader as translated from the source (library verdicts as oracles): it splits every
   message where the model's ping_split does, refuses where the model refuses, and evaluates no
   index or slice expression out of bounds — so C13_ping_split_no_panic / _bounds are statements
   about the Go source *)
Theorem C13_source_ping_header_is_model : forall d o1 o2, bytes_ok d ->
  dres_ping (length d) (Gen.go_parsePingHeader d o1 o2) = forget_code (ping_split (length d) (nth 1 d 0) (o1 && o2)).
Proof. intros d o1 o2 H. apply go_ping_header_is_model; [exact H | reflexivity]. Qed.
Print Assumptions C13_source_ping_header_is_model.

(* the rotation as translated from the source never evaluates an index or slice expression beyond
   the block, never hands PutUvarint a slot that is too small and never reaches its own panic,
   for any block and any uint16 return label *)
Theorem C13_source_rotate_no_panic : forall block ret, ret < 65536 ->
  Gen.go_NextRotateSwitchBlock block (Z.of_N ret) <> IPanic.
Proof. intros block ret H. apply go_rotate_no_panic; [exact H | reflexivity]. Qed.
Print Assumptions C13_source_rotate_no_panic.
