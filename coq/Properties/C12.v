(* C12 — switch-label source routes.  Property theorems only; proofs in SwitchLabelProofs.v. *)
From Verif Require Import Prelude SwitchLabel SwitchLabelProofs Gen Translated TranslatedDec TranslatedImp TranslatedImp2.

(* A valid path: forward labels F = f_0..f_{n-2} and return labels R = r_1..r_{n-1}, all in
   1..65535 (f_{n-1} = 0 = r_0 are added by mk_hops), n >= 2 hops, any n that fits.
   Rotating the built forward block hop by hop with the hops' return labels yields the forward
   labels in order and 0 at the destination, leaves every byte after the block ([extra], any
   content, any length) untouched, keeps the block length, and the final block reverses to
   exactly the built return block. *)
Theorem C12_forward_traversal : forall (F R : list N) (sz : nat) (fb rb extra : list N),
  F <> [] -> length F = length R -> labels_ok F -> labels_ok R ->
  calc_size (mk_hops F R) = Ok sz ->
  build_blocks (mk_hops F R) = Ok (fb, rb) ->
  exists b', traverse fb extra (0 :: R) = Ok (F ++ [0], b', extra) /\
             length b' = length fb /\ transform b' = rb.
Proof. exact forward_traversal. Qed.
Print Assumptions C12_forward_traversal.

(* Traversing the return block retraces the hops in reverse (labels r_{n-1}..r_1, then 0) and
   reverses back to the original forward block. *)
Theorem C12_return_traversal : forall (F R : list N) (sz : nat) (fb rb extra : list N),
  F <> [] -> length F = length R -> labels_ok F -> labels_ok R ->
  calc_size (mk_hops F R) = Ok sz ->
  build_blocks (mk_hops F R) = Ok (fb, rb) ->
  exists b', traverse rb extra (0 :: rev F) = Ok (rev R ++ [0], b', extra) /\
             length b' = length rb /\ transform b' = fb.
Proof. exact return_traversal. Qed.
Print Assumptions C12_return_traversal.

(* The computed size is the maximum over the traversal's live lengths (windows of the size
   simulation): every one fits, and one of them is exactly that long. *)
Theorem C12_size_sufficient_minimal : forall (F R : list N) (sz : nat),
  F <> [] -> length F = length R -> calc_size (mk_hops F R) = Ok sz ->
  let live := window (map esize F ++ 1%nat :: map esize R) (length R) in
  (forall i, (i <= length R + 1)%nat -> (live i <= sz)%nat) /\
  (exists i, (i <= length R + 1)%nat /\ live i = sz).
Proof. exact size_sufficient_minimal. Qed.
Print Assumptions C12_size_sufficient_minimal.

(* A path whose labels cannot fit into the one-byte block length is refused with an error ... *)
Theorem C12_too_big_refused : forall (hops : list (N * N)) (i : nat),
  hops <> [] -> snd (hd (0,0) hops) = 0 -> fst (last hops (0,0)) = 0 ->
  (i <= length hops)%nat -> (255 < window (size_sim hops) (length hops - 1) i)%nat ->
  build_blocks hops = Err 2.
Proof. exact too_big_refused. Qed.
Print Assumptions C12_too_big_refused.

(* ... and BuildBlocks never crashes, whatever uint16 labels and however many hops. *)
Theorem C12_build_blocks_no_panic : forall hops : list (N * N),
  Forall (fun h => u16 (fst h) /\ u16 (snd h)) hops -> build_blocks hops <> Panic.
Proof. exact build_blocks_no_panic. Qed.
Print Assumptions C12_build_blocks_no_panic.

(* Tie to the code: EncodedSize as tabulated from the compiled code (Gen.v, all 65536 labels)
   is the model's esize, and the model's encoder produces exactly that many bytes. *)
Theorem C12_esize_is_code : forall x, x < 65536 ->
  Gen.enc_size x = N.of_nat (esize x) /\ length (enc x) = esize x.
Proof.
  intros x Hx. split; [|apply enc_length; exact Hx].
  assert (H : all_below (fun x => Gen.enc_size x =? N.of_nat (esize x)) 65536 = true) by (vm_compute; reflexivity).
  apply N.eqb_eq. exact (all_below_spec _ _ H x Hx).
Qed.
Print Assumptions C12_esize_is_code.

(* non-vacuity: the repository's own 5-hop test vector meets the hypotheses *)
Example C12_nonvacuous :
  let F := [67; 1; 123; 15] in let R := [16383; 128; 3; 3] in
  F <> [] /\ length F = length R /\ labels_ok F /\ labels_ok R /\
  calc_size (mk_hops F R) = Ok 6%nat /\
  build_blocks (mk_hops F R) = Ok ([67; 1; 123; 15; 0; 0], [3; 3; 128; 1; 255; 127]).
Proof. cbv zeta. repeat split; try discriminate; vm_compute; reflexivity. Qed.

(* the translated source of SwitchLabel.EncodedSize (regenerated every run) is the model's esize *)
Theorem C12_source_encoded_size_is_model : forall x, Gen.go_SwitchLabel_EncodedSize x = Z.of_nat (esize x).
Proof. exact go_encoded_size_is_model. Qed.
Print Assumptions C12_source_encoded_size_is_model.

(* ---------- the translated source of the two in-place block functions ---------- *)
(* NextRotateSwitchBlock and TransformToReturnBlock are translated from m/switch_label.go on every
   run (harness/gen_translate_imp.go: the byte slice as a list renamed on every mutation, the
   sub-slice labelSlot as a view of the same memory, both loops as generated Fixpoints, every index
   and slice expression with its bound check, binary.Uvarint / PutUvarint / copy / clear /
   slices.Reverse as library functions of the generated prelude).  For EVERY block and every
   uint16 return label the translated rotation returns the model's next label and leaves the
   model's block, or fails where the model fails; the translated transformation leaves the
   model's return block.  The traversal theorems above are therefore theorems about what the Go
   source computes. *)
Theorem C12_source_rotate_is_model : forall block ret, ret < 65536 ->
  ires_rot (Gen.go_NextRotateSwitchBlock block (Z.of_N ret)) = forget_code (rotate block [] ret).
Proof. intros block ret H. apply go_rotate_is_model; [exact H | reflexivity]. Qed.
Print Assumptions C12_source_rotate_is_model.

Theorem C12_source_transform_is_model : forall block,
  Gen.go_TransformToReturnBlock block = IOk [] (transform block).
Proof. intros block. apply go_transform_is_model. reflexivity. Qed.
Print Assumptions C12_source_transform_is_model.

(* CalculateBlockSize as translated from the source (three generated loops, one nested; the size
   simulation as an int array with index writes): for EVERY hop list it returns the model's
   calc_size, or an error where the model has one — so "the computed block size is sufficient and
   minimal" above is a statement about what the Go source computes. *)
Theorem C12_source_calc_size_is_model : forall hops,
  ires_size (Gen.go_SwitchPath_CalculateBlockSize hops) = forget_code (calc_size hops).
Proof. intros hops. apply go_calc_size_is_model. reflexivity. Qed.
Print Assumptions C12_source_calc_size_is_model.
