(* C06 — traffic policy.  Property theorems only; proofs in PolicyProofs.v. *)
From Verif Require Import Prelude Gen Policy PolicyProofs.

(* The scheme table of the compiled code (generated into Gen.v by tabulating getInfoFromURL)
   is the property's table: tcp -> TCP, udp -> UDP, http/https -> TCP and UDP on 80/443 by
   default, icmp6/ping6 -> ICMPv6 (port 0); every other scheme is refused. *)
Theorem C06_scheme_table :
  Gen.scheme_table =
  [(Gen.scheme_tcp, ([6], (-1)%Z)); (Gen.scheme_udp, ([17], (-1)%Z));
   (Gen.scheme_http, ([6; 17], 80%Z)); (Gen.scheme_https, ([6; 17], 443%Z));
   (Gen.scheme_icmp6, ([58], 0%Z)); (Gen.scheme_ping6, ([58], 0%Z))].
Proof. reflexivity. Qed.
Print Assumptions C06_scheme_table.

(* For every configuration the parser accepts, the compiled inbound policy admits
   (protocol, port, sender) iff some configured service is for exactly that protocol and port
   and its access rule (public / friends / listed addresses or friend names) admits the sender. *)
Theorem C06_compile_refines_spec : forall c p proto port sender,
  compile c = Ok p -> (check_in p proto port sender = true <-> admits c proto port sender).
Proof. exact compile_refines_spec. Qed.
Print Assumptions C06_compile_refines_spec.

Theorem C06_default_deny : forall c p proto port sender,
  compile c = Ok p -> (forall s, In s (c_services c) -> ~ svc_key s proto port) ->
  check_in p proto port sender = false.
Proof. exact default_deny. Qed.
Print Assumptions C06_default_deny.

(* A packet from the mesh (first packet of its 5-tuple) is handed to the local interface iff
   its frame unsealed, traffic handling is on, inner source and destination equal the frame's,
   the destination is not internal, and the policy admits it. *)
Theorem C06_inbound_delivers_iff : forall c pol ch handle unsealed fsrc fdst k,
  cache_get (p_dst k, p_src k, p_proto k, dport_of k, sport_of k) ch = None ->
  (fst (inbound c pol ch handle unsealed fsrc fdst k) = Deliver <->
   unsealed = true /\ (44 <= p_len k)%nat /\ handle = true /\ p_src k = fsrc /\ p_dst k = fdst /\
   in_internal fdst = false /\ check_in pol (p_proto k) (dport_of k) (p_src k) = true).
Proof. exact inbound_delivers_iff. Qed.
Print Assumptions C06_inbound_delivers_iff.

(* A packet from the local interface (first packet of its 5-tuple) enters the mesh iff it is
   IPv6 with a full header, not for the local API, its source is the router's own address, its
   destination is a non-multicast Mycoria address and, under isolation, a configured friend. *)
Theorem C06_outbound_enters_iff : forall c pol ch handle api k,
  cache_get (p_src k, p_dst k, p_proto k, sport_of k, dport_of k) ch = None ->
  (fst (outbound c pol ch handle api k) = Deliver <->
   p_ver k = 6 /\ (44 <= p_len k)%nat /\ p_dst k <> api /\ handle = true /\
   in_multicast (p_dst k) = false /\ in_fd00_8 (p_dst k) = true /\ p_src k = c_self c /\
   (c_isolate c = false \/ In (p_dst k) (map snd (c_friends c)))).
Proof. exact outbound_enters_iff. Qed.
Print Assumptions C06_outbound_enters_iff.

(* Along any history of decisions the connection cache stores, for every entry an inbound
   decision created, exactly the policy's verdict — later packets of the flow get the same. *)
Theorem C06_inbound_cache_sound : forall c pol ch handle unsealed fsrc fdst k,
  cache_sound pol ch -> cache_sound pol (snd (inbound c pol ch handle unsealed fsrc fdst k)).
Proof. exact inbound_cache_sound. Qed.
Print Assumptions C06_inbound_cache_sound.

Theorem C06_outbound_cache_sound : forall c pol ch handle api k,
  cache_sound pol ch -> cache_sound pol (snd (outbound c pol ch handle api k)).
Proof. exact outbound_cache_sound. Qed.
Print Assumptions C06_outbound_cache_sound.

(* non-vacuity: a udp service for friends admits UDP/53 from the friend and nothing else *)
Example C06_nonvacuous :
  let fr := 2 ^ 127 + 2 ^ 126 + 2 ^ 125 + 2 ^ 124 + 2 ^ 123 + 2 ^ 122 + 2 ^ 120 + 7 in   (* fd00::7 *)
  let c := mkCfg [(1, fr)] [mkSvc Gen.scheme_udp (Some 53) false true []] false 1 in
  exists p, compile c = Ok p /\ check_in p 17 53 fr = true /\ check_in p 6 53 fr = false /\ check_in p 17 53 (fr + 1) = false.
Proof. cbv zeta. eexists. split; [vm_compute; reflexivity|]. repeat split; vm_compute; reflexivity. Qed.

(* Histories on one 5-tuple: whatever status a cached connection state carries — denied,
   prohibited, or one an error ping wrote over it (unreachable, rejected) — an inbound packet is
   delivered only if that status is "allowed"; and an error ping never turns a connection that
   was not allowed into an allowed one. *)
Theorem C06_inbound_cached_not_allowed_drops : forall c pol ch handle unsealed fsrc fdst k inb st,
  cache_get (p_dst k, p_src k, p_proto k, dport_of k, sport_of k) ch = Some (inb, st) -> st <> st_allowed ->
  fst (inbound c pol ch handle unsealed fsrc fdst k) = Drop.
Proof. exact inbound_cached_not_allowed_drops. Qed.
Print Assumptions C06_inbound_cached_not_allowed_drops.

Theorem C06_mark_router_keeps_denied : forall ch k remote st inb s,
  cache_get k ch = Some (inb, s) -> s <> st_allowed -> st <> st_allowed ->
  exists s', cache_get k (mark_router ch remote st) = Some (inb, s') /\ s' <> st_allowed.
Proof. exact mark_router_keeps_denied. Qed.
Print Assumptions C06_mark_router_keeps_denied.

(* The passage of time (any pause; the periodic cleaner forgetting short-lived or all entries)
   never re-opens a connection: after it, an inbound packet is handed to the local interface only
   if it would have been before, or the inbound policy itself admits it. *)
Theorem C06_time_never_opens : forall c pol ch long handle unsealed fsrc fdst k,
  fst (inbound c pol (age_cache ch long) handle unsealed fsrc fdst k) = Deliver ->
  fst (inbound c pol ch handle unsealed fsrc fdst k) = Deliver \/
  check_in pol (p_proto k) (dport_of k) (p_src k) = true.
Proof. exact age_never_opens. Qed.
Print Assumptions C06_time_never_opens.
