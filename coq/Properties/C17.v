(* C17 — frame copies and buffer reuse.  Property theorems only; proofs in PoolProofs.v.
   These are the per-operation facts; the inductive invariant over whole operation sequences
   (live buffers pairwise distinct and disjoint from the pools, pooled buffers zero, pooled
   structs clean: Pool.inv_b) is evaluated on every step of every real operation sequence by
   the correspondence check — that part is validated, not yet proved (see DESIGN §6 C17). *)
From Verif Require Import Prelude Gen Frame Pool PoolProofs PoolInv TranslatedDec.

(* Clone: identical bytes, parsed fields, addresses and receive link, in a different buffer;
   the source frame is untouched.  For every state, every pool choice. *)
Theorem C17_clone_exact : forall s id sc bc s' nid f b bb,
  step s (OClone id sc bc) = Ok (s', nid) ->
  lookup id (live s) = Some f -> f_buf f = Some b -> lookup b (heap s) = Some bb ->
  ~ In b (free s) -> (b < nextb s)%nat ->
  exists f' nb, lookup nid (live s') = Some f' /\ f_buf f' = Some nb /\ nb <> b /\
    frame_data s' f' = frame_data s f /\ frame_data s' f = frame_data s f /\
    f_ix f' = f_ix f /\ f_src f' = f_src f /\ f_dst f' = f_dst f /\ f_link f' = f_link f /\
    f_off f' = f_off f /\ f_len f' = f_len f.
Proof. exact clone_exact. Qed.
Print Assumptions C17_clone_exact.

(* Releasing a frame clears its buffer before the buffer can reach a pool, and the struct goes
   back with no addresses, indices, buffer or link. *)
Theorem C17_release_clean : forall s id s' r f b bb,
  step s (ORelease id) = Ok (s', r) -> lookup id (live s) = Some f -> f_buf f = Some b ->
  lookup b (heap s) = Some bb ->
  lookup b (heap s') = Some (mkBuf (cap bb) []) /\
  (exists rest, sfree s' = fr_zero :: rest) /\ fr_clean fr_zero = true.
Proof. exact release_clean. Qed.
Print Assumptions C17_release_clean.

(* What the pool hands out is all-zero whenever every pooled buffer is, is either brand new or
   taken out of the pool (so no live frame holds it), ... *)
Theorem C17_get_slice_zero : forall s n c s1 nb,
  (forall b bb, In b (free s) -> lookup b (heap s) = Some bb -> buf_zero bb = true) ->
  get_slice s n c = (s1, Some nb) ->
  exists bb, lookup nb (heap s1) = Some bb /\ buf_zero bb = true /\ tier_of n = Some (cap bb).
Proof. exact get_slice_zero. Qed.
Print Assumptions C17_get_slice_zero.

Theorem C17_get_slice_fresh_or_pooled : forall s n c s1 nb,
  get_slice s n c = (s1, Some nb) ->
  live s1 = live s /\ sfree s1 = sfree s /\
  ((nb = nextb s /\ free s1 = free s /\ nextb s1 = S (nextb s)) \/
   (In nb (free s) /\ free s1 = remove_nat nb (free s) /\ nextb s1 = nextb s /\ heap s1 = heap s)).
Proof. exact get_slice_fresh_or_pooled. Qed.
Print Assumptions C17_get_slice_fresh_or_pooled.

(* ... and a frame written into it leaves it zero everywhere outside the frame: building or
   parsing on recycled storage exposes no byte of a released frame. *)
Theorem C17_write_into_zero_buffer : forall c off d,
  buf_zero_outside (buf_write (mkBuf c []) off d) off (off + length d) = true.
Proof. exact write_into_zero_buffer. Qed.
Print Assumptions C17_write_into_zero_buffer.

(* non-vacuity: a concrete sequence new, clone, grow the clone's appendix past the 600-byte
   tier, release the source, new on the recycled buffer — the invariant holds at the end and
   the clone still has its bytes *)
Example C17_nonvacuous :
  let ops := [ONew 8 (repeat 1 16) (repeat 2 16) [] (repeat 5 500) [] [9;9;9] 12 16 None None;
              OClone 1 None None;
              OSetApx 2 (repeat 7 300) 16 None;
              ORelease 1;
              ONew 1 (repeat 3 16) (repeat 4 16) [] [1;2;3] [] [8;8;8] 12 16 (Some 0%nat) (Some 1%nat)] in
  match fold_left (fun r o => match r with Ok (s, _) => step s o | e => e end) ops (Ok (st_init, 0%nat)) with
  | Ok (s, _) => inv_b s = true /\ length (live s) = 2%nat
  | _ => False
  end.
Proof. vm_compute. split; reflexivity. Qed.

(* ---------- the ownership invariant, for every sequence of operations (PoolInv.v) ---------- *)
(* After ANY sequence of new / parse / clone / reply / set-appendix / set-byte / release operations
   on a shared builder, with any choice of which pooled buffer or pooled struct the pools hand
   out: no two live frames share a pooled buffer, no live frame's buffer is in a pool, the pools
   hold no buffer twice, every pooled buffer is all-zero, every pooled frame struct is clean, and
   every buffer a live frame uses exists.  Isolation of clones and of released frames follows:
   a write through one frame touches only that frame's buffer, which nobody else holds. *)
Theorem C17_reachable_pool_inv : forall ops, pinv None (run_ops st_init ops).
Proof. exact reachable_pool_inv. Qed.
Print Assumptions C17_reachable_pool_inv.

Theorem C17_step_inv : forall s o s' id, pinv None s -> step s o = Ok (s', id) -> pinv None s'.
Proof. exact step_inv. Qed.
Print Assumptions C17_step_inv.

(* A build or reply whose size fits no pooled buffer (more than 65675 bytes with margins) is
   refused with an error and the frame keeps its buffer (fix D22); the function as it stood
   sliced the nil buffer and panicked — reachable from the network during the handshake (C13). *)
Theorem C17_oversized_refused : forall s f ty src dst sb msg apx nonce3 off ovh bc,
  tier_of (required_size ty sb msg apx off ovh) = None ->
  (cur_len s f < required_size ty sb msg apx off ovh)%nat ->
  init_frame s f ty src dst sb msg apx nonce3 off ovh bc = Err 9.
Proof. exact init_frame_oversized_refused. Qed.
Print Assumptions C17_oversized_refused.

Theorem C17_oversized_pinned_panics : forall s f ty src dst sb msg apx nonce3 off ovh bc,
  tier_of (required_size ty sb msg apx off ovh) = None ->
  (cur_len s f < required_size ty sb msg apx off ovh)%nat -> f_buf f = None ->
  init_frame_pinned s f ty src dst sb msg apx nonce3 off ovh bc = Panic.
Proof. exact init_frame_pinned_oversized_panics. Qed.
Print Assumptions C17_oversized_pinned_panics.

(* the translated source of FrameDataWithMargins (harness/gen_translate_dec.go): a frame is handed
   to a link together with the link's margins exactly when the room exists in its pooled buffer —
   an exact fit included — and the slice is the frame with that room around it; no request with
   non-negative margins takes a slice out of bounds *)
Theorem C17_source_margins : forall len lps psoff offset overhead,
  (0 <= len)%Z -> (0 <= psoff)%Z -> (0 <= offset)%Z -> (0 <= overhead)%Z ->
  Gen.go_FrameV1_FrameDataWithMargins len lps psoff offset overhead =
    if ((offset <=? psoff)%Z && (psoff + len + overhead <=? lps)%Z)
    then DOk [psoff - offset; psoff + len + overhead]%Z
    else if (offset <=? psoff)%Z then DErr 2 else DErr 1.
Proof. exact go_margins_spec. Qed.
Print Assumptions C17_source_margins.
