(* C08 — gossip routes name only signers.  Property theorems only; proofs in ControlProofs.v.
   [r_sig_ok] = the hop record's signature verifies under the key BOUND TO THE SIGNER'S ADDRESS
   over the record exactly as attached (its fields and the whole nested chain) with the context
   of THIS announcement (origin, origin timestamp, origin signature).  Under an unforgeable
   signature scheme that is: byte-identical to what that signer produced for this very
   announcement over this very inner chain. *)
From Verif Require Import Prelude SwitchLabel Table Control ControlProofs.

Theorem C08_records_genuine : forall cfg self lite stub now t links recv a r,
  handle_announce cfg self lite stub now t links recv a = Some r ->
  Forall (fun x => r_sig_ok x = true /\ (r_known x = true \/ r_id_ok x = true) /\ r_signer x <> self) (a_chain a) /\
  (match a_chain a with [] => a_origin a | x :: _ => r_signer x end) = fst (fst (fst recv)).
Proof. exact records_genuine. Qed.
Print Assumptions C08_records_genuine.

(* Any modified, spliced, re-attributed, re-ordered or duplicated record (its signature does not
   cover what is attached), an unverifiable unknown signer, or a delivering peer that is not the
   outermost signer: the announcement is rejected; routing table, stored info and forwarding
   are untouched. *)
Theorem C08_forgery_rejected : forall cfg self lite stub now t links recv a,
  (exists x, In x (a_chain a) /\ (r_sig_ok x = false \/ (r_known x = false /\ r_id_ok x = false))) \/
  (match a_chain a with [] => a_origin a | x :: _ => r_signer x end) <> fst (fst (fst recv)) ->
  handle_announce cfg self lite stub now t links recv a = None.
Proof. exact forgery_rejected. Qed.
Print Assumptions C08_forgery_rejected.

(* The learned route lists, between this router and the origin, exactly the signers of the
   attached records in order with the delay and labels each signed; next hop = delivering peer. *)
Theorem C08_accepted_route_shape : forall cfg self lite stub now t links recv a t' fw,
  handle_announce cfg self lite stub now t links recv a = Some (t', true, fw) ->
  exists e, In e t' /\ e_dst e = a_origin a /\ e_nexthop e = fst (fst (fst recv)) /\
    e_path e = mkHop self (snd (fst recv)) (snd (fst (fst recv))) 0 ::
               map (fun r => mkHop (r_signer r) (r_delay r) (r_fl r) (r_rl r)) (a_chain a) ++
               [mkHop (a_origin a) 0 0 (a_retlabel a)].
Proof. exact accepted_route_shape. Qed.
Print Assumptions C08_accepted_route_shape.

(* Forwarding (shared with C09): never to the origin, the delivering peer or a hop-list member. *)
Theorem C08_forward_targets : forall cfg self lite stub now t links recv a t' added fw x,
  handle_announce cfg self lite stub now t links recv a = Some (t', added, fw) -> In x fw ->
  x <> a_origin a /\ x <> fst (fst (fst recv)) /\ ~ In x (map r_signer (a_chain a)) /\
  exists l, In l links /\ fst (fst (fst l)) = x.
Proof. exact forward_targets. Qed.
Print Assumptions C08_forward_targets.

(* Modified body, origin signature or header (the frame does not verify under the key bound to
   the origin) and announcements older than the newest accepted from that origin: never handled. *)
Theorem C08_tampered_announce_rejected : forall cfg self lite stub now c links recv p a,
  p_auth p = false -> announce_ping cfg self lite stub now c links recv p a = None.
Proof. exact tampered_announce_rejected. Qed.
Print Assumptions C08_tampered_announce_rejected.

Theorem C08_old_announce_rejected : forall cfg self lite stub now c links recv p a last,
  mem (p_src p) (c_known c) = true -> aget (latest_key p) (c_latest c) = Some last -> (p_time p < last)%Z ->
  announce_ping cfg self lite stub now c links recv p a = None.
Proof. exact old_announce_rejected. Qed.
Print Assumptions C08_old_announce_rejected.

(* Everything that is handled passed the gate and runs the handler the theorems above are about. *)
Theorem C08_announce_ping_handled : forall cfg self lite stub now c links recv p a r,
  announce_ping cfg self lite stub now c links recv p a = Some r ->
  p_auth p = true /\ handle_announce cfg self lite stub now (c_routes c) links recv a = Some r.
Proof. exact announce_ping_handled. Qed.
Print Assumptions C08_announce_ping_handled.
