(* C15 — sequence numbers and key rollover.  Property theorems only; proofs in SessionProofs.v. *)
From Verif Require Import Prelude Gen Seq Session SessionProofs Translated.

(* Atomicity assumption of the model, read off the source under test by `harness gen` (go/ast):
   EncryptionSession.Out and In run entirely under the session lock, and NextOut is called from
   Out only.  Under it every interleaving of concurrent callers is a sequence of these steps. *)
Theorem C15_atomicity_assumption :
  Gen.session_out_locked = true /\ Gen.session_in_locked = true /\ Gen.session_nextout_only_from_out = true.
Proof. repeat split; reflexivity. Qed.
Print Assumptions C15_atomicity_assumption.

(* No two frames sealed with the same key (epoch) in the same priority class carry the same
   sequence number: for every sequence of Out calls of both classes interleaved with arbitrary
   In calls (any incoming sequence numbers), from any start state, unless the priority class
   wraps on its own (which the sender refuses: C15_prio_wrap_refused). *)
Theorem C15_nonce_unique : forall e l e' em,
  q_out (e_regl e) < two32 -> q_out (e_prio e) < two32 ->
  run_ops out_ in_ e l [] false = (e', em, false) -> NoDup em.
Proof. exact nonce_unique. Qed.
Print Assumptions C15_nonce_unique.

Theorem C15_prio_wrap_refused : forall e, q_out (e_prio e) = two32 - 1 -> snd (out_ e true) = Err 1.
Proof. exact prio_wrap_refused. Qed.
Print Assumptions C15_prio_wrap_refused.

(* When the regular sequence wraps, sender and receiver move to the same next key, the priority
   sequence restarts on both, and the frame sealed just after the wrap unseals; in general every
   frame delivered in order unseals and the two ends stay in sync — from every start offset. *)
Theorem C15_sync_step : forall s r,
  synced s r ->
  let '(s', res) := out_ s false in
  exists seq k, res = Ok (seq, k) /\
    let '(r', ok) := unseal_at r k seq false in
    ok = true /\ synced s' r' /\
    (q_out (e_regl s) = two32 - 1 ->
       k = S (e_oute s) /\ e_ine r' = S (e_ine r) /\ q_out (e_prio s') = 0 /\ q_hi (e_prio r') = 0).
Proof. exact sync_step. Qed.
Print Assumptions C15_sync_step.

Theorem C15_sync_run : forall n s r, synced s r ->
  let '(sf, rf, ok) := send_recv s r n in ok = true /\ synced sf rf.
Proof. exact sync_run. Qed.
Print Assumptions C15_sync_run.

(* Frames sealed under the previous key no longer unseal and change nothing at the receiver. *)
Theorem C15_stale_rejected : forall r fe seq,
  fe <> e_ine r -> Gen.state_rolloverLowerBound < seq -> unseal_at r fe seq false = (r, false).
Proof. exact stale_rejected. Qed.
Print Assumptions C15_stale_rejected.

(* non-vacuity: 3 frames across the wrap from offset 2^32-2 *)
Example C15_nonvacuous :
  let s := mkEp (mkSq 0 0 4294967294) (mkSq 0 0 7) 0 0 in
  let r := mkEp (mkSq 4294967294 0 0) (mkSq 5 0 0) 0 0 in
  synced s r /\ (let '(sf, rf, ok) := send_recv s r 3 in ok = true /\ e_oute sf = 1%nat /\ e_ine rf = 1%nat /\ q_out (e_regl sf) = 2 /\ q_out (e_prio sf) = 0).
Proof. cbv zeta. split; [repeat split; reflexivity|vm_compute; repeat split]. Qed.

(* ---------- the translated source (Translated.v) ----------
   NextOut, RolloverRequired, Reset, ResetIn and ResetOut of state.SequenceHandler are translated
   from the Go source on every run; they equal the model functions the theorems above use. *)
Theorem C15_source_next_out_is_model : forall q, q_out q < two32 ->
  let '(o', s, roll) := Gen.go_SequenceHandler_NextOut (q_out q) in
  next_out q = (mkSq (q_hi q) (q_bm q) o', s, roll).
Proof. exact go_next_out_is_model. Qed.
Print Assumptions C15_source_next_out_is_model.

Theorem C15_source_rollover_required_is_model : forall q seq,
  let '(h', r) := Gen.go_SequenceHandler_RolloverRequired (q_hi q) seq in
  rollover_required q seq = ((if r then mkSq h' (q_bm q) (q_out q) else q), r) /\ (r = false -> h' = q_hi q).
Proof. exact go_rollover_required_is_model. Qed.
Print Assumptions C15_source_rollover_required_is_model.

Theorem C15_source_resets_are_model : forall q,
  reset_out q = mkSq (q_hi q) (q_bm q) (Gen.go_SequenceHandler_ResetOut (q_out q)) /\
  reset_in q = mkSq (Gen.go_SequenceHandler_ResetIn (q_hi q)) (q_bm q) (q_out q) /\
  reset_both q = (let '(h, o) := Gen.go_SequenceHandler_Reset (q_hi q) (q_out q) in mkSq h (q_bm q) o).
Proof. exact go_resets_are_model. Qed.
Print Assumptions C15_source_resets_are_model.

(* ---------- lock discipline of the operations the model treats as atomic (go/ast obligation on the source under test) ---------- *)
(* Every session operation the model takes as one step (In, Out, the three key-setup calls, the
   sequence handlers' Check / Ack / Reset / ResetIn / RolloverRequired, the time-sequence handler,
   the lazily created signing and encryption sessions, GetSession and the session cleaner) locks its
   mutex first and defers the unlock: 21 methods, recomputed from state/*.go on every run. *)
Theorem C15_lock_discipline : Gen.lock_discipline_state = true.
Proof. repeat split; reflexivity. Qed.
Print Assumptions C15_lock_discipline.
