(* C09 — gossip reach and termination in honest meshes.  Property theorems only; proofs in
   GossipProofs.v (the flooding protocol over an arbitrary graph) and ControlProofs.v (what one
   router does with one announcement).  The flooding protocol's delivery step is the
   abstraction of Control.announce_ping described in Gossip.v; the obligation that a real
   router drops a passing announcement only when it already holds a route to its origin is
   checked by the harness at every delivery in real meshes. *)
From Verif Require Import Prelude SwitchLabel Table TableSorted Control ControlProofs Gossip GossipProofs GossipRefine GossipNet.

(* Reach: for every graph (any number of routers), every order of announcements and every
   delivery order: once nothing is in flight, every router holds a route to every router that
   has announced, provided the graph is connected. *)
Theorem C09_flood_reach : forall nodes adj, (forall a, adj a a = false) ->
  forall s o r,
  reachable nodes adj s -> inflight s = [] -> connected nodes adj ->
  (exists id, In (id, o) (announced s)) -> In o nodes -> In r nodes -> r <> o ->
  has_route s r o.
Proof. exact flood_reach. Qed.
Print Assumptions C09_flood_reach.

(* Every frame ever put on a link travelled a loop-free path: never to its origin, never to a
   router already in its hop list, never back to the router it came from. *)
Theorem C09_paths_loop_free : forall nodes adj, NoDup nodes -> (forall a, adj a a = false) ->
  forall s m, reachable nodes adj s -> In m (history s) ->
  NoDup (path_of m) /\ g_to m <> g_origin m /\ ~ In (g_to m) (g_hops m).
Proof. exact paths_loop_free. Qed.
Print Assumptions C09_paths_loop_free.

Theorem C09_never_back : forall nodes adj r m x,
  In x (targets nodes adj r m) -> x <> g_from m /\ x <> g_origin m /\ ~ In x (g_hops m).
Proof. exact never_back. Qed.
Print Assumptions C09_never_back.

(* An announcement travels each path at most once. *)
Theorem C09_at_most_once : forall nodes adj, NoDup nodes -> (forall a, adj a a = false) ->
  forall s m1 m2, reachable nodes adj s -> In m1 (history s) -> In m2 (history s) ->
  g_id m1 = g_id m2 -> g_hops m1 = g_hops m2 -> g_to m1 = g_to m2 ->
  m1 = m2 /\ NoDup (history s).
Proof. exact at_most_once. Qed.
Print Assumptions C09_at_most_once.

(* Flooding terminates: every delivery strictly decreases a natural-number measure. *)
Theorem C09_delivery_decreases : forall nodes adj, NoDup nodes -> (forall a, adj a a = false) ->
  forall s s', reachable nodes adj s -> is_delivery nodes adj s s' -> (mu nodes s' < mu nodes s)%nat.
Proof. exact delivery_decreases. Qed.
Print Assumptions C09_delivery_decreases.

(* One router, one announcement (the model the harness replays real deliveries through): the
   set of peers it is forwarded to is exactly the protocol's target set. *)
Theorem C09_forward_targets_sound : forall cfg self lite stub now t links recv a t' added fw x,
  handle_announce cfg self lite stub now t links recv a = Some (t', added, fw) -> In x fw ->
  x <> a_origin a /\ x <> fst (fst (fst recv)) /\ ~ In x (map r_signer (a_chain a)) /\
  exists l, In l links /\ fst (fst (fst l)) = x.
Proof. exact forward_targets. Qed.
Print Assumptions C09_forward_targets_sound.

Theorem C09_forward_targets_complete : forall cfg self lite now t links recv a t' fw lp ll lt llite,
  handle_announce cfg self lite false now t links recv a = Some (t', true, fw) ->
  a_dst_all a = true -> In (lp, ll, lt, llite) links ->
  (llite = true -> lite = true) -> lp <> a_origin a -> lp <> fst (fst (fst recv)) -> ~ In lp (map r_signer (a_chain a)) ->
  In lp fw.
Proof. exact forward_targets_complete. Qed.
Print Assumptions C09_forward_targets_complete.

(* An added announcement leaves a route to its origin through the delivering peer. *)
Theorem C09_added_has_route : forall cfg self lite stub now t links recv a t' fw,
  handle_announce cfg self lite stub now t links recv a = Some (t', true, fw) ->
  exists e, In e t' /\ e_dst e = a_origin a /\ e_nexthop e = fst (fst (fst recv)).
Proof.
  intros cfg self lite stub now t links recv a t' fw H.
  destruct (accepted_route_shape _ _ _ _ _ _ _ _ _ _ _ H) as (e & Hin & Hd & Hn & _).
  exists e. auto.
Qed.
Print Assumptions C09_added_has_route.

(* non-vacuity: a triangle, one announcement, one full flood *)
Example C09_nonvacuous :
  let nodes := [1; 2; 3] in let adj a b := negb (a =? b) in
  exists s, reachable nodes adj s /\ inflight s = [] /\ has_route s 2 1 /\ has_route s 3 1 /\ length (history s) = 4%nat.
Proof.
  set (nodes := [1; 2; 3]). set (adj := fun a b : N => negb (a =? b)).
  pose (s1 := mkG [] (fresh_msgs nodes adj 9 1) (fresh_msgs nodes adj 9 1) [] [(9, 1)]).
  assert (R1 : reachable nodes adj s1).
  { eapply RS; [apply R0|]. apply (GAnnounce nodes adj ginit 9 1); [left; reflexivity|intros o' []]. }
  (* deliver to 2: added, forwards to 3 *)
  pose (m12 := mkMsg 9 1 [] 1 2). pose (m13 := mkMsg 9 1 [] 1 3). pose (m23 := mkMsg 9 1 [2] 2 3). pose (m32 := mkMsg 9 1 [3] 3 2).
  pose (s2 := mkG [(2, 1)] [m13; m23] [m12; m13; m23] [m12] [(9, 1)]).
  assert (R2 : reachable nodes adj s2).
  { eapply RS; [exact R1|]. apply (GAdd nodes adj s1 [] m12 [m13]); [reflexivity|discriminate|intros []]. }
  pose (s3 := mkG [(3, 1); (2, 1)] [m23; m32] [m12; m13; m23; m32] [m13; m12] [(9, 1)]).
  assert (R3 : reachable nodes adj s3).
  { eapply RS; [exact R2|]. apply (GAdd nodes adj s2 [] m13 [m23]); [reflexivity|discriminate|intros []]. }
  pose (s4 := mkG [(3, 1); (2, 1)] [m32] [m12; m13; m23; m32] [m23; m13; m12] [(9, 1)]).
  assert (R4 : reachable nodes adj s4).
  { eapply RS; [exact R3|]. apply (GDrop nodes adj s3 [] m23 [m32]); [reflexivity|left; reflexivity]. }
  pose (s5 := mkG [(3, 1); (2, 1)] [] [m12; m13; m23; m32] [m32; m23; m13; m12] [(9, 1)]).
  assert (R5 : reachable nodes adj s5).
  { eapply RS; [exact R4|]. apply (GDrop nodes adj s4 [] m32 []); [reflexivity|right; left; reflexivity]. }
  exists s5. repeat split; try exact R5; cbn; auto.
Qed.

(* A handled announcement that was not added: on a sorted table (every reachable table is, C11)
   the receiver already holds a route to the origin, or the origin is a new gossip destination
   whose routing prefix is over its limit — the one case excluded by the protocol abstraction. *)
From Verif Require Import TableSorted.
Theorem C09_not_added_has_route_or_full : forall cfg now t e0 t',
  sorted t -> tpwf t -> add_route cfg now t e0 = Ok (t', false) ->
  (exists x, In x t /\ e_dst x = e_dst e0) \/
  (forall x, In x t -> e_dst x <> e_dst e0) /\ e_source e0 = src_gossip.
Proof. exact not_added_has_route_or_full. Qed.
Print Assumptions C09_not_added_has_route_or_full.

(* ---------- one real delivery is one protocol step (GossipRefine.v) ----------
   In an honest mesh (no lite links, announcements addressed to all routers, AddRoute reporting no
   error) what Control.handle_announce does with an announcement on a sorted table is exactly one
   of the protocol's moves: ignored; added — the router now knows the origin and forwards to
   exactly the protocol's target set (link peers minus origin, sender and hop-list members); or
   not added — it already knew the origin (the one exception: a new gossip destination whose
   routing prefix is over its limit). *)
Theorem C09_delivery_refines : forall cfg self now t links recv a id,
  sorted t -> tpwf t ->
  (forall l, In l links -> snd l = false) ->
  a_dst_all a = true ->
  (forall c, add_route cfg now t (ann_route self recv a) <> Err c) ->
  let m := amsg id a recv self in
  match handle_announce cfg self false false now t links recv a with
  | None => True
  | Some (t', true, fw) => knows t' (g_origin m) /\ (forall x, In x fw <-> is_target links m x)
  | Some (t', false, fw) =>
      t' = t /\ fw = [] /\
      (knows t (g_origin m) \/
       ((forall x, In x t -> e_dst x <> g_origin m) /\ e_source (ann_route self recv a) = src_gossip))
  end.
Proof. exact delivery_refines. Qed.
Print Assumptions C09_delivery_refines.

Theorem C09_looping_ignored : forall cfg self lite stub now t links recv a,
  In self (map r_signer (a_chain a)) -> handle_announce cfg self lite stub now t links recv a = None.
Proof. exact looping_ignored. Qed.
Print Assumptions C09_looping_ignored.

(* ---------- the mesh of handlers simulates the protocol (GossipNet.v) ----------
   A mesh in which every router runs the handler model (Control.handle_announce on its own
   routing table, Table.add_route inside; frames from itself ignored by the switch) steps exactly
   like the flooding protocol; the well-formedness of honest states (valid records, outermost
   signer = sender, distinct signers, sorted tables, "a router that never learned a route to o
   holds at most the direct-peer route to o", "every learned pair is a table entry") is an
   invariant.  Side conditions of a delivery: AddRoute reports no error and does not panic, and
   the per-prefix limits are not reached; at most 98 routers. *)
Theorem C09_mesh_step_is_protocol_step : forall nodes adj cfg lab lat,
  (length nodes <= 98)%nat -> (forall a, adj a a = false) -> forall c c',
  wf nodes c -> cstep nodes adj cfg lab lat c c' ->
  gstep nodes adj (abs_state c) (abs_state c') /\ wf nodes c'.
Proof.
  intros nodes adj cfg lab lat Hn Hi c c' Hw Hs.
  split; [exact (cstep_sim nodes adj cfg lab lat Hn Hi c c' Hw Hs)|exact (cstep_wf nodes adj cfg lab lat Hn Hi c c' Hw Hs)].
Qed.
Print Assumptions C09_mesh_step_is_protocol_step.

(* Reach on the routers' TABLES: in every execution of a connected mesh, once nothing is in flight
   every router holds a table entry for every router that has announced. *)
Theorem C09_mesh_reach : forall nodes adj cfg lab lat,
  (length nodes <= 98)%nat -> (forall a, adj a a = false) -> forall c o r,
  creach nodes adj cfg lab lat c -> c_flight c = [] -> connected nodes adj ->
  (exists id, In (id, o) (c_anns c)) -> In o nodes -> In r nodes -> r <> o ->
  knows (c_tbl c r) o.
Proof. exact mesh_reach. Qed.
Print Assumptions C09_mesh_reach.

Theorem C09_mesh_paths_loop_free : forall nodes adj cfg lab lat,
  (length nodes <= 98)%nat -> NoDup nodes -> (forall a, adj a a = false) -> forall c m,
  creach nodes adj cfg lab lat c -> In m (c_hist c) ->
  NoDup (path_of m) /\ g_to m <> g_origin m /\ ~ In (g_to m) (g_hops m).
Proof. exact mesh_paths_loop_free. Qed.
Print Assumptions C09_mesh_paths_loop_free.

Theorem C09_mesh_delivery_decreases : forall nodes adj cfg lab lat,
  (length nodes <= 98)%nat -> NoDup nodes -> (forall a, adj a a = false) -> forall c c',
  creach nodes adj cfg lab lat c -> cstep nodes adj cfg lab lat c c' -> c_anns c' = c_anns c ->
  (mu nodes (abs_state c') < mu nodes (abs_state c))%nat.
Proof. exact mesh_delivery_decreases. Qed.
Print Assumptions C09_mesh_delivery_decreases.

From Verif Require Gen.

(* ---------- the table update of one delivery is one atomic step (go/ast obligation on the source under test) ---------- *)
(* The mesh model (cstep) handles one delivered announcement as ONE transition of the receiving
   router's table.  A router runs one frame worker per CPU, all of which end in AddRoute: the steps
   of the real router are transitions of the model only if every mutating table operation is one
   critical section under the table's write lock (taken once, unlock deferred at once, no entry
   touched before, no other lock call) and every lookup one critical section under the read lock.
   Both are computed from m/table.go on every run. *)
Theorem C09_table_update_is_one_step : Gen.table_ops_serialised = true /\ Gen.lock_discipline_table = true.
Proof. split; reflexivity. Qed.
Print Assumptions C09_table_update_is_one_step.

(* ---------- reach, second clause: the forward labels of a learned route lead to its destination ---------- *)
From Verif Require Import GossipDelivers GossipLabels.
(* In every state the mesh of announcement handlers reaches from tables that hold bare direct-peer
   routes (what Peering.AddLink writes: no path), with symmetric links and link labels unique per
   router: a route with a path leads, label by label over the links of the routers on it, from the
   router that holds it to the route's destination.  (follow looks every forward label up among
   the current router's links, as Switch.ForwardByLabel does.) *)
Theorem C09_labels_lead_to_destination : forall nodes adj cfg lab lat,
  (length nodes <= 98)%nat -> (forall a, adj a a = false) -> (forall a b, adj a b = adj b a) ->
  (forall r x y, In x (neighbours nodes adj r) -> In y (neighbours nodes adj r) -> lab r x = lab r y -> x = y) ->
  forall c r e,
  lreach nodes adj cfg lab lat c -> In e (c_tbl c r) -> e_path e <> [] ->
  follow nodes adj lab lat r (e_path e) = Some (e_dst e).
Proof. exact labels_lead_to_destination. Qed.
Print Assumptions C09_labels_lead_to_destination.

Example C09_labels_nonvacuous :
  exists c e, lreach gx_nodes ex_adj ex_cfgs ex_lab ex_lat c /\ In e (c_tbl c gx_a) /\ e_dst e = gx_b /\ length (e_path e) = 2%nat /\
              follow gx_nodes ex_adj ex_lab ex_lat gx_a (e_path e) = Some gx_b.
Proof. exact labels_nonvacuous. Qed.
