(* C04 — peering handshake: key-possession proof, universe admission, key agreement.  Property
   theorems only; proofs in HandshakeProofs.v.  [*_auth] = the frame unseals under the session of
   its claimed source: signature valid under the key bound to that address and timestamp newer
   than anything accepted from that key before (C02 says what the signature covers; C01 what
   "bound" means). *)
From Verif Require Import Prelude Handshake HandshakeProofs.

Theorem C04_completed_implies : forall me chal fresh rq rs ak peer k,
  run_end me chal fresh rq rs ak = Some (peer, k) ->
  q_src rq <> pa_ip me /\ q_addr_ok rq = true /\ q_addr_ip rq = q_src rq /\ peer = q_addr_ip rq /\
  q_connected rq = false /\ q_auth rq = true /\ q_universe rq = pa_universe me /\
  s_auth rs = true /\ s_src rs = peer /\ s_dst rs = pa_ip me /\ s_chal rs = chal /\ s_err rs = false /\
  (pa_secret me <> 0 -> s_ua rs = Some (pa_universe me, pa_secret me, chal, pa_ip me, peer)) /\
  a_auth ak = true /\ a_src ak = peer /\ a_dst ak = pa_ip me /\ a_err ak = false.
Proof. exact completed_implies. Qed.
Print Assumptions C04_completed_implies.

Theorem C04_tampered_aborts : forall me chal fresh rq rs ak,
  q_auth rq = false \/ s_auth rs = false \/ a_auth ak = false -> run_end me chal fresh rq rs ak = None.
Proof. exact tampered_aborts. Qed.
Print Assumptions C04_tampered_aborts.

Theorem C04_reflected_aborts : forall me chal fresh rq rs ak,
  q_src rq = pa_ip me \/ s_dst rs <> pa_ip me \/ a_dst ak <> pa_ip me \/ s_src rs <> q_addr_ip rq \/ a_src ak <> q_addr_ip rq ->
  run_end me chal fresh rq rs ak = None.
Proof. exact reflected_aborts. Qed.
Print Assumptions C04_reflected_aborts.

Theorem C04_stale_challenge_aborts : forall me chal fresh rq rs ak,
  s_chal rs <> chal -> run_end me chal fresh rq rs ak = None.
Proof. exact stale_challenge_aborts. Qed.
Print Assumptions C04_stale_challenge_aborts.

Theorem C04_own_proof_useless : forall me fresh rq st o chal,
  handle_request me fresh rq = Acc st o ->
  o_ua o <> Some (pa_universe me, pa_secret me, chal, pa_ip me, h_remote st).
Proof. exact own_proof_useless. Qed.
Print Assumptions C04_own_proof_useless.

Theorem C04_secret_required : forall me st chal fresh rs,
  pa_secret me <> 0 -> s_ua rs <> Some (pa_universe me, pa_secret me, chal, pa_ip me, h_remote st) ->
  exists c, handle_response me st chal fresh rs = Abort c.
Proof. exact secret_required. Qed.
Print Assumptions C04_secret_required.

Theorem C04_honest_completes : forall a b ca cb fa fb,
  pa_ip a <> pa_ip b -> pa_universe a = pa_universe b -> pa_secret a = pa_secret b ->
  (pa_secret a <> 0 -> pa_universe a <> 0) ->
  pa_client a = true -> pa_client b = false ->
  honest a b ca cb fa fb = Some ((pa_ip b, (fa, fb)), (pa_ip a, (fa, fb))).
Proof. exact honest_completes. Qed.
Print Assumptions C04_honest_completes.

Example C04_nonvacuous :
  honest (mkParty 10 7 99 true) (mkParty 20 7 99 false) 1 2 3 4 = Some ((20, (3, 4)), (10, (3, 4))).
Proof. reflexivity. Qed.
