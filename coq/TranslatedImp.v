(* TranslatedImp.v — the two in-place switch-block functions as translated from m/switch_label.go
   (harness/gen_translate_imp.go -> Gen.go_NextRotateSwitchBlock, Gen.go_TransformToReturnBlock,
   with their loops as generated Fixpoints) are the hand-written model (SwitchLabel.rotate,
   SwitchLabel.transform) for every block and every label; in particular the translated functions
   never evaluate an index or slice expression beyond the block. *)
From Verif Require Import Prelude Gen SwitchLabel SwitchLabelProofs Translated TranslatedDec MalformedProofs.
From Coq Require Import ZifyBool ZifyNat ZifyN.

(* ---------- the memory helpers of the generated prelude, in list terms ---------- *)
Lemma go_len_nat m : go_len m = Z.of_nat (length m).
Proof. reflexivity. Qed.

Lemma go_slice_nat m lo hi : (0 <= lo)%Z -> (lo <= hi)%Z ->
  go_slice m lo hi = firstn (Z.to_nat hi - Z.to_nat lo) (skipn (Z.to_nat lo) m).
Proof. intros H1 H2. unfold go_slice. f_equal. lia. Qed.

Lemma go_slice_all m : go_slice m 0 (go_len m) = m.
Proof.
  unfold go_slice, go_len. replace (Z.to_nat (Z.of_nat (length m) - 0)) with (length m) by lia.
  change (Z.to_nat 0) with 0%nat. cbn [skipn]. apply firstn_all.
Qed.

Lemma go_put_nat m lo v : (0 <= lo)%Z ->
  go_put m lo v = firstn (Z.to_nat lo) m ++ v ++ skipn (Z.to_nat lo + length v) m.
Proof. reflexivity. Qed.

Lemma go_reverse_all m : go_reverse m 0 (go_len m) = rev m.
Proof.
  unfold go_reverse. rewrite go_slice_all. unfold go_put. change (Z.to_nat 0) with 0%nat.
  cbn [firstn app Nat.add]. rewrite rev_length, skipn_all, app_nil_r. reflexivity.
Qed.

(* copy(m, m[i:]) followed by clear(m[n:]): shift to the front, zero the rest *)
Lemma shift_front m i : (0 <= i)%Z -> (i <= go_len m)%Z ->
  let '(m1, n) := go_copy m 0 (go_len m) (0 + i) (go_len m) in
  n = (go_len m - i)%Z /\ go_len m1 = go_len m /\
  go_clear m1 (0 + n) (go_len m1) = skipn (Z.to_nat i) m ++ repeat 0 (Z.to_nat i).
Proof.
  intros H0 H1. unfold go_copy, go_len in *.
  set (len := length m) in *.
  replace (Z.min (Z.of_nat len - 0) (Z.of_nat len - (0 + i))) with (Z.of_nat len - i)%Z by lia.
  assert (Hs : go_slice m (0 + i) (0 + i + (Z.of_nat len - i)) = skipn (Z.to_nat i) m).
  { unfold go_slice. replace (Z.to_nat (0 + i + (Z.of_nat len - i) - (0 + i))) with (len - Z.to_nat i)%nat by lia.
    replace (Z.to_nat (0 + i)) with (Z.to_nat i) by lia.
    apply firstn_all2. rewrite skipn_length. fold len. lia. }
  rewrite Hs.
  assert (Hp : go_put m 0 (skipn (Z.to_nat i) m) = skipn (Z.to_nat i) m ++ skipn (len - Z.to_nat i) m).
  { unfold go_put. change (Z.to_nat 0) with 0%nat. cbn [firstn app Nat.add]. rewrite skipn_length. reflexivity. }
  rewrite Hp.
  assert (Hl : length (skipn (Z.to_nat i) m ++ skipn (len - Z.to_nat i) m) = len).
  { rewrite app_length, !skipn_length. fold len. lia. }
  cbv beta iota.
  split; [reflexivity|]. split; [f_equal; exact Hl|].
  unfold go_clear, go_put. rewrite Hl.
  replace (Z.to_nat (0 + (Z.of_nat len - i))) with (len - Z.to_nat i)%nat by lia.
  replace (Z.to_nat (Z.of_nat len - (0 + (Z.of_nat len - i)))) with (Z.to_nat i) by lia.
  rewrite repeat_length.
  rewrite firstn_app. rewrite skipn_length. fold len.
  replace (len - Z.to_nat i - (len - Z.to_nat i))%nat with 0%nat by lia. cbn [firstn]. rewrite app_nil_r.
  rewrite firstn_all2 by (rewrite skipn_length; fold len; lia).
  rewrite (skipn_all2 (n := (len - Z.to_nat i + Z.to_nat i)%nat)) by (rewrite Hl; lia). rewrite app_nil_r. reflexivity.
Qed.

Lemma go_at_nat m i : (0 <= i)%Z -> go_at m i = Z.of_N (nth (Z.to_nat i) m 0).
Proof. reflexivity. Qed.

(* ---------- TransformToReturnBlock ---------- *)
Lemma skipn_cons_nth {A} (l : list A) i d : (i < length l)%nat -> skipn i l = nth i l d :: skipn (S i) l.
Proof.
  revert i; induction l as [|a l IH]; intros [|i] H; cbn in *; try lia; [reflexivity|].
  apply IH. lia.
Qed.

Lemma firstn_S_nth {A} (l : list A) i d : (i < length l)%nat -> firstn (S i) l = firstn i l ++ [nth i l d].
Proof.
  revert i; induction l as [|a l IH]; intros [|i] H; cbn in *; try lia; [reflexivity|].
  f_equal. apply IH. lia.
Qed.

Lemma all_zero_repeat (l : list N) : Forall (fun b => b = 0) l -> l = repeat 0 (length l).
Proof. induction 1 as [|a l Ha _ IH]; cbn; [reflexivity|]. subst a. f_equal. exact IH. Qed.

Lemma transform_loop r : forall fuel i,
  (i <= length r)%nat -> (length r - i <= fuel)%nat -> Forall (fun b => b = 0) (firstn i r) ->
  go_TransformToReturnBlock_loop1 fuel (Z.of_nat i) r =
    Some (drop_zeros (skipn i r) ++ repeat 0 (length r - length (drop_zeros (skipn i r)))).
Proof.
  induction fuel as [|fuel IH]; intros i Hi Hf Hz.
  - assert (i = length r) by lia. subst i. cbn [go_TransformToReturnBlock_loop1].
    rewrite skipn_all. cbn [drop_zeros app length]. rewrite Nat.sub_0_r.
    rewrite firstn_all in Hz. rewrite <- all_zero_repeat by exact Hz. reflexivity.
  - cbn [go_TransformToReturnBlock_loop1]. unfold go_len.
    destruct (Nat.eq_dec i (length r)) as [He|Hne].
    + subst i. replace (Z.of_nat (length r) <? Z.of_nat (length r) - 0)%Z with false by lia. cbn [negb].
      rewrite skipn_all. cbn [drop_zeros app length]. rewrite Nat.sub_0_r.
      rewrite firstn_all in Hz. rewrite <- all_zero_repeat by exact Hz. reflexivity.
    + assert (Hlt : (i < length r)%nat) by lia.
      replace (Z.of_nat i <? Z.of_nat (length r) - 0)%Z with true by lia. cbn [negb].
      replace (go_inb (Z.of_nat (length r) - 0) (Z.of_nat i)) with true by (unfold go_inb; lia). cbn [negb].
      rewrite go_at_nat by lia. replace (Z.to_nat (0 + Z.of_nat i)) with i by lia.
      rewrite (skipn_cons_nth r i 0 Hlt). cbn [drop_zeros].
      destruct (N.eqb_spec (nth i r 0) 0) as [Hb|Hb].
      * replace (Z.of_N (nth i r 0%N) =? 0)%Z with true by lia. cbn [negb].
        replace (Z.of_nat i + 1)%Z with (Z.of_nat (S i)) by lia.
        rewrite IH; [reflexivity|lia|lia|].
        rewrite (firstn_S_nth r i 0%N Hlt). apply Forall_app. split; [exact Hz|]. constructor; [exact Hb|constructor].
      * replace (Z.of_N (nth i r 0%N) =? 0)%Z with false by lia. cbn [negb].
        destruct (Nat.eq_dec i 0) as [H0|H0].
        -- subst i. replace (0 <? Z.of_nat 0)%Z with false by lia.
           rewrite <- (skipn_cons_nth r 0 0%N Hlt). cbn [skipn].
           rewrite Nat.sub_diag. cbn [repeat]. rewrite app_nil_r. reflexivity.
        -- replace (0 <? Z.of_nat i)%Z with true by lia.
           replace (go_inr (Z.of_nat (length r) - 0) (Z.of_nat i) (Z.of_nat (length r) - 0)) with true by (unfold go_inr; lia).
           cbn [negb].
           pose proof (shift_front r (Z.of_nat i)) as Hs. unfold go_len in Hs.
           destruct (go_copy r 0 (Z.of_nat (length r)) (0 + Z.of_nat i) (Z.of_nat (length r))) as [m1 n] eqn:Hc.
           destruct Hs as (Hn & Hl & Hcl); [lia|lia|].
           unfold go_len in *. rewrite Hl.
           replace (go_inr (Z.of_nat (length r) - 0) n (Z.of_nat (length r) - 0)) with true by (unfold go_inr; lia).
           cbn [negb]. rewrite <- Hl. rewrite Hcl. rewrite Nat2Z.id.
           rewrite <- (skipn_cons_nth r i 0 Hlt).
           f_equal. f_equal. f_equal. rewrite skipn_length. lia.
Qed.

Theorem go_transform_is_model : forall block,
  go_TransformToReturnBlock_translated = true ->
  go_TransformToReturnBlock block = IOk [] (transform block).
Proof.
  intros block _. unfold go_TransformToReturnBlock. rewrite go_reverse_all.
  unfold go_len. replace (Z.to_nat (Z.of_nat (length (rev block)) - 0 - 0)) with (length (rev block)) by lia.
  change 0%Z with (Z.of_nat 0). rewrite (transform_loop (rev block) (length (rev block)) 0); [|lia|lia|constructor].
  cbn [skipn]. reflexivity.
Qed.

(* ---------- NextRotateSwitchBlock ---------- *)
Lemma go_uvarint_go_spec buf : forall i x s,
  go_uvarint_go buf i x s = (Z.of_N (fst (uvarint_go buf i x s)), snd (uvarint_go buf i x s)).
Proof.
  induction buf as [|b t IH]; intros i x s; cbn [go_uvarint_go uvarint_go]; [reflexivity|].
  destruct (Nat.eqb i 10); [reflexivity|].
  destruct (b <? 128).
  - destruct (Nat.eqb i 9 && (1 <? b)); reflexivity.
  - apply IH.
Qed.

Lemma go_uvarint_spec m : go_uvarint m 0 (go_len m) = (Z.of_N (fst (uvarint m)), snd (uvarint m)).
Proof. unfold go_uvarint, uvarint. rewrite go_slice_all. apply go_uvarint_go_spec. Qed.

Lemma uvarint_go_bound buf : forall i x s, (0 < snd (uvarint_go buf i x s))%Z ->
  (Z.of_nat i < snd (uvarint_go buf i x s) <= Z.of_nat (i + length buf))%Z.
Proof.
  induction buf as [|b t IH]; intros i x s; cbn [uvarint_go snd length]; [lia|].
  destruct (Nat.eqb i 10); cbn [snd]; [lia|].
  destruct (b <? 128).
  - destruct (Nat.eqb i 9 && (1 <? b)); cbn [snd]; lia.
  - intros H. specialize (IH (S i) _ _ H). lia.
Qed.

Lemma uvarint_bound m : (0 < snd (uvarint m))%Z -> (0 < snd (uvarint m) <= Z.of_nat (length m))%Z.
Proof. intros H. pose proof (uvarint_go_bound m 0 0 0 H) as Hb. unfold uvarint in *. lia. Qed.

(* the scan for the return-label slot *)
Lemma scan_loop l rl nh nx br vn : forall fuel i seen dflt,
  (i <= length l)%nat -> (length l - i <= fuel)%nat ->
  exists seen',
    go_NextRotateSwitchBlock_loop1 fuel (Z.of_nat i) l rl nh nx br vn seen (Z.of_nat dflt) =
      Some (seen', Z.of_nat (find_slot_from seen (skipn i l) i dflt), l).
Proof.
  induction fuel as [|fuel IH]; intros i seen dflt Hi Hf.
  - assert (i = length l) by lia. subst i. cbn [go_NextRotateSwitchBlock_loop1]. rewrite skipn_all.
    cbn [find_slot_from]. eexists. reflexivity.
  - cbn [go_NextRotateSwitchBlock_loop1]. unfold go_len.
    destruct (Nat.eq_dec i (length l)) as [He|Hne].
    + subst i. replace (Z.of_nat (length l) <? Z.of_nat (length l) - 0)%Z with false by lia. cbn [negb].
      rewrite skipn_all. cbn [find_slot_from]. eexists. reflexivity.
    + assert (Hlt : (i < length l)%nat) by lia.
      replace (Z.of_nat i <? Z.of_nat (length l) - 0)%Z with true by lia. cbn [negb].
      replace (go_inb (Z.of_nat (length l) - 0) (Z.of_nat i)) with true by (unfold go_inb; lia). cbn [negb].
      rewrite go_at_nat by lia. replace (Z.to_nat (0 + Z.of_nat i)) with i by lia.
      rewrite (skipn_cons_nth l i 0%N Hlt). cbn [find_slot_from].
      replace (Z.of_nat i + 1)%Z with (Z.of_nat (S i)) by lia.
      destruct (N.eqb_spec (nth i l 0) 0) as [Hb|Hb].
      * replace (Z.of_N (nth i l 0%N) =? 0)%Z with true by lia. cbn [negb].
        destruct seen; cbn [negb].
        -- eexists. reflexivity.
        -- apply IH; lia.
      * replace (Z.of_N (nth i l 0%N) =? 0)%Z with false by lia. cbn [negb].
        apply IH; lia.
Qed.

Lemma nth_firstn_lt' {A} (l : list A) : forall i n d, (i < n)%nat -> nth i (firstn n l) d = nth i l d.
Proof.
  induction l as [|a l IH]; intros [|i] [|n] d H; cbn; try lia; try reflexivity.
  apply IH. lia.
Qed.
Lemma nth_skipn' {A} (l : list A) : forall i k d, nth i (skipn k l) d = nth (k + i) l d.
Proof.
  induction l as [|a l IH]; intros i [|k] d; cbn; try reflexivity.
  - destruct i; reflexivity.
  - apply IH.
Qed.

(* the check that the written label holds no zero byte *)
Lemma zero_loop m rl nh nx br vn sf rs lo hi : forall fuel i,
  (0 <= lo)%Z -> (lo <= hi)%Z -> (hi <= go_len m)%Z ->
  (Z.of_nat i <= hi - lo)%Z -> (hi - lo - Z.of_nat i <= Z.of_nat fuel)%Z ->
  go_NextRotateSwitchBlock_loop2 fuel (Z.of_nat i) m rl nh nx br vn sf rs lo hi =
    if existsb (fun b => b =? 0) (skipn i (go_slice m lo hi)) then None else Some m.
Proof.
  intros fuel. induction fuel as [|fuel IH]; intros i Hlo Hlh Hhi Hi Hf.
  - cbn [go_NextRotateSwitchBlock_loop2]. rewrite skipn_all2; [reflexivity|].
    unfold go_slice. rewrite firstn_length, skipn_length. unfold go_len in *. lia.
  - cbn [go_NextRotateSwitchBlock_loop2].
    destruct (Z.ltb_spec (Z.of_nat i) (hi - lo)) as [Hlt|Hge]; cbn [negb].
    + replace (go_inb (hi - lo) (Z.of_nat i)) with true by (unfold go_inb; lia). cbn [negb].
      assert (Hlen : length (go_slice m lo hi) = Z.to_nat (hi - lo)).
      { unfold go_slice. rewrite firstn_length, skipn_length. unfold go_len in *. lia. }
      rewrite (skipn_cons_nth (go_slice m lo hi) i 0%N) by lia. cbn [existsb].
      assert (Hnth : nth i (go_slice m lo hi) 0 = nth (Z.to_nat (lo + Z.of_nat i)) m 0).
      { unfold go_slice. rewrite nth_firstn_lt' by lia. rewrite nth_skipn'. f_equal. lia. }
      rewrite go_at_nat by lia. rewrite Hnth.
      destruct (N.eqb_spec (nth (Z.to_nat (lo + Z.of_nat i)) m 0) 0) as [Hb|Hb].
      * replace (Z.of_N (nth (Z.to_nat (lo + Z.of_nat i)) m 0%N) =? 0)%Z with true by lia. reflexivity.
      * replace (Z.of_N (nth (Z.to_nat (lo + Z.of_nat i)) m 0%N) =? 0)%Z with false by lia. cbn [orb].
        replace (Z.of_nat i + 1)%Z with (Z.of_nat (S i)) by lia. apply IH; lia.
    + rewrite skipn_all2; [reflexivity|].
      unfold go_slice. rewrite firstn_length, skipn_length. unfold go_len in *. lia.
Qed.

Lemma skipn_add {A} (l : list A) : forall a b, skipn a (skipn b l) = skipn (b + a) l.
Proof.
  induction l as [|x l IH]; intros a [|b]; cbn; try reflexivity.
  - destruct a; reflexivity.
  - apply IH.
Qed.

(* binary.PutUvarint on a uint16 is the model's enc *)
Lemma varint_bytes_enc x : x < 65536 -> go_varint_bytes 10 x = enc x.
Proof.
  intros Hx. unfold enc. cbn [go_varint_bytes].
  destruct (N.ltb_spec x 128) as [H1|H1]; [reflexivity|].
  assert (H128 : x / 128 < 512) by (apply N.div_lt_upper_bound; lia).
  destruct (N.ltb_spec x 16384) as [H2|H2].
  - assert (Hq : x / 128 < 128) by (apply N.div_lt_upper_bound; lia).
    replace (x / 128 <? 128) with true by (symmetry; apply N.ltb_lt; exact Hq). reflexivity.
  - assert (Hq : 128 <= x / 128) by (apply N.div_le_lower_bound; lia).
    replace (x / 128 <? 128) with false by (symmetry; apply N.ltb_ge; exact Hq).
    assert (Hd : x / 128 / 128 = x / 16384) by (rewrite N.div_div by lia; reflexivity).
    rewrite Hd.
    assert (Hq2 : x / 16384 < 128) by (apply N.div_lt_upper_bound; lia).
    replace (x / 16384 <? 128) with true by (symmetry; apply N.ltb_lt; exact Hq2). reflexivity.
Qed.

Lemma go_put_length m lo v : (0 <= lo)%Z -> (Z.to_nat lo + length v <= length m)%nat ->
  length (go_put m lo v) = length m.
Proof.
  intros H0 H. unfold go_put. rewrite !app_length, firstn_length, skipn_length. lia.
Qed.

Lemma go_slice_put m lo v : (0 <= lo)%Z -> (Z.to_nat lo + length v <= length m)%nat ->
  go_slice (go_put m lo v) lo (lo + Z.of_nat (length v)) = v.
Proof.
  intros H0 H. unfold go_slice, go_put.
  replace (Z.to_nat (lo + Z.of_nat (length v) - lo)) with (length v) by lia.
  rewrite skipn_exact by (rewrite firstn_length; lia). apply firstn_exact. reflexivity.
Qed.

Lemma go_put_put m lo v w : (0 <= lo)%Z -> (Z.to_nat lo + length v <= length m)%nat -> length w = length v ->
  go_put (go_put m lo v) lo w = go_put m lo w.
Proof.
  intros H0 H Hw. unfold go_put.
  rewrite firstn_exact by (rewrite firstn_length; lia).
  rewrite Hw. f_equal. f_equal.
  rewrite <- (skipn_add _ (length v) (Z.to_nat lo)).
  rewrite skipn_exact by (rewrite firstn_length; lia).
  rewrite skipn_exact by reflexivity. reflexivity.
Qed.

Lemma reverse_put m lo v : (0 <= lo)%Z -> (Z.to_nat lo + length v <= length m)%nat ->
  go_reverse (go_put m lo v) lo (lo + Z.of_nat (length v)) = go_put m lo (rev v).
Proof.
  intros H0 H. unfold go_reverse. rewrite go_slice_put by assumption.
  apply go_put_put; [assumption|assumption|apply rev_length].
Qed.

Lemma write_at_put m : forall lo v, (lo + length v <= length m)%nat ->
  write_at (m ++ []) lo v = go_put m (Z.of_nat lo) v.
Proof.
  intros lo v H. rewrite app_nil_r. unfold go_put. rewrite Nat2Z.id.
  assert (HP : length (firstn lo m) = lo) by (rewrite firstn_length; lia).
  pose proof (write_at_app (firstn lo m) (skipn lo m) v) as Hw.
  rewrite firstn_skipn, HP in Hw. rewrite Hw. f_equal. f_equal. rewrite skipn_add. reflexivity.
Qed.

(* what a translated result says in the model's vocabulary (error sites not distinguished) *)
Definition ires_rot (r : ires) : res (N * list N * list N) :=
  match r with
  | IOk [l] m => Ok (Z.to_N l, m, [])
  | IOk _ _ => Panic
  | IErr _ => Err 0
  | IPanic => Panic
  end.

Theorem go_rotate_is_model : forall block ret, ret < 65536 ->
  go_NextRotateSwitchBlock_translated = true ->
  ires_rot (go_NextRotateSwitchBlock block (Z.of_N ret)) = forget_code (rotate block [] ret).
Proof.
  intros block ret Hret _. unfold go_NextRotateSwitchBlock, rotate.
  rewrite go_uvarint_spec. destruct (uvarint block) as [next n] eqn:Hu. cbn [fst snd].
  destruct (Z.eqb_spec n 0) as [Hn0|Hn0].
  { subst n. cbn. reflexivity. }
  destruct (Z.ltb_spec n 0) as [Hneg|Hpos].
  { replace (n <=? 0)%Z with true by lia. replace (n =? 0)%Z with false by lia. reflexivity. }
  replace (n <=? 0)%Z with false by lia.
  pose proof (uvarint_bound block) as Hb. rewrite Hu in Hb. cbn [snd] in Hb. specialize (Hb ltac:(lia)).
  set (len := length block) in *.
  unfold go_len. fold len.
  replace (go_inr (Z.of_nat len - 0) n (Z.of_nat len - 0)) with true by (unfold go_inr; lia). cbn [negb].
  pose proof (shift_front block n ltac:(lia) ltac:(unfold go_len; fold len; lia)) as Hs.
  unfold go_len in Hs. fold len in Hs.
  destruct (go_copy block 0 (Z.of_nat len) (0 + n) (Z.of_nat len)) as [m1 vn] eqn:Hc.
  destruct Hs as (Hvn & Hl1 & Hcl).
  rewrite Hl1. rewrite Hl1 in Hcl.
  replace (go_inr (Z.of_nat len - 0) vn (Z.of_nat len - 0)) with true by (unfold go_inr; lia). cbn [negb].
  rewrite Hcl.
  set (k := Z.to_nat n) in *.
  set (b1 := skipn k block ++ repeat 0 k).
  assert (Hlb1 : length b1 = len).
  { unfold b1. rewrite app_length, skipn_length, repeat_length. fold len. lia. }
  rewrite Hlb1.
  (* the scan *)
  destruct (scan_loop b1 (Z.of_N ret) 0%Z (Z.of_N next) n vn (length b1) 0 (Z.of_N next =? 0)%Z (len - 1))
    as [seen' Hscan]; [lia|lia|].
  replace (Z.to_nat (Z.of_nat len - 0 - 0)) with (length b1) by lia.
  replace (Z.of_nat len - 0 - 1)%Z with (Z.of_nat (len - 1)) by lia.
  change (Z.of_nat 0) with 0%Z in Hscan. rewrite Hscan. cbn [skipn].
  replace (Z.of_N next =? 0)%Z with (next =? 0) by lia.
  unfold find_slot. rewrite Hlb1.
  set (start := find_slot_from (next =? 0) b1 0 (len - 1)).
  rewrite go_encoded_size_is_model. rewrite N2Z.id.
  rewrite rev_length, (enc_length ret Hret).
  destruct (Nat.leb_spec (start + esize ret) len) as [Hfit|Hnofit].
  2:{ replace (Z.of_nat len - 0 <? Z.of_nat start + Z.of_nat (esize ret))%Z with true by lia. reflexivity. }
  replace (Z.of_nat len - 0 <? Z.of_nat start + Z.of_nat (esize ret))%Z with false by lia.
  replace (go_inr (Z.of_nat len - 0) (Z.of_nat start) (Z.of_nat start + Z.of_nat (esize ret))) with true by (unfold go_inr; lia).
  cbn [negb].
  unfold go_put_uvarint. rewrite N2Z.id, (varint_bytes_enc ret Hret), (enc_length ret Hret).
  replace (Z.of_nat (esize ret) <=? 0 + (Z.of_nat start + Z.of_nat (esize ret)) - (0 + Z.of_nat start))%Z with true by lia.
  replace (0 + (Z.of_nat start + Z.of_nat (esize ret)))%Z with (0 + Z.of_nat start + Z.of_nat (length (enc ret)))%Z
    by (rewrite (enc_length ret Hret); lia).
  rewrite reverse_put by (rewrite ?(enc_length ret Hret); lia).
  replace (0 + Z.of_nat start)%Z with (Z.of_nat start) by lia.
  rewrite <- (write_at_put b1 start (rev (enc ret))) by (rewrite rev_length, (enc_length ret Hret); lia).
  set (all := write_at (b1 ++ []) start (rev (enc ret))).
  assert (Hall : length all = len).
  { unfold all. rewrite write_at_put by (rewrite rev_length, (enc_length ret Hret); lia).
    rewrite go_put_length; [exact Hlb1|lia|rewrite rev_length, (enc_length ret Hret); lia]. }
  replace (firstn len all) with all by (symmetry; apply firstn_all2; lia).
  replace (skipn len all) with (@nil N) by (symmetry; apply skipn_all2; lia).
  destruct (N.ltb_spec 0 ret) as [Hr|Hr].
  - replace (0 <? Z.of_N ret)%Z with true by lia. cbn [andb].
    replace (Z.to_nat (Z.of_nat start + Z.of_nat (length (enc ret)) - Z.of_nat start - 0)) with (length (enc ret)) by lia.
    change 0%Z with (Z.of_nat 0) at 1.
    rewrite zero_loop; [|lia|lia|unfold go_len; rewrite Hall; rewrite (enc_length ret Hret); lia|lia|lia].
    cbn [skipn].
    assert (Hsl : go_slice all (Z.of_nat start) (Z.of_nat start + Z.of_nat (length (enc ret))) = rev (enc ret)).
    { unfold all. rewrite write_at_put by (rewrite rev_length, (enc_length ret Hret); lia).
      rewrite <- (rev_length (enc ret)). apply go_slice_put; [lia|].
      rewrite rev_length, (enc_length ret Hret). lia. }
    rewrite Hsl.
    destruct (existsb (fun b => b =? 0) (rev (enc ret))); [reflexivity|].
    cbn [ires_rot forget_code]. f_equal. f_equal. f_equal.
    change 65536%Z with (Z.of_N 65536). rewrite <- N2Z.inj_mod by lia. apply N2Z.id.
  - assert (ret = 0) by lia. subst ret.
    replace (0 <? Z.of_N 0)%Z with false by lia. cbn [andb].
    cbn [ires_rot forget_code]. f_equal. f_equal. f_equal.
    change 65536%Z with (Z.of_N 65536). rewrite <- N2Z.inj_mod by lia. apply N2Z.id.
Qed.

Corollary go_rotate_no_panic : forall block ret, ret < 65536 ->
  go_NextRotateSwitchBlock_translated = true ->
  go_NextRotateSwitchBlock block (Z.of_N ret) <> IPanic.
Proof.
  intros block ret Hret Ht Hp. pose proof (go_rotate_is_model block ret Hret Ht) as H. rewrite Hp in H.
  cbn [ires_rot] in H. pose proof (rotate_no_panic block [] ret Hret) as Hn.
  destruct (rotate block [] ret); cbn in H; congruence.
Qed.

Lemma imp_translated : go_NextRotateSwitchBlock_translated && go_TransformToReturnBlock_translated = true.
Proof. reflexivity. Qed.
