#!/bin/sh
# Run once after a fresh restore (offline): build the harness against /repo, generate Gen.v,
# build the whole Coq development (full .vo build, no -vos).
set -e
cd "$(dirname "$0")"
export GOFLAGS=-mod=mod GOPROXY=off GOSUMDB=off GOTOOLCHAIN=local CGO_ENABLED=0
mkdir -p bin out evidence replays
cp /repo/go.sum harness/go.sum
(cd harness && go1.26 build -tags verif -o ../bin/harness .)
./bin/harness gen coq/Gen.v
(cd coq && coq_makefile -f _CoqProject -o Makefile >/dev/null && timeout 3000 make -j16)
echo "setup ok"
